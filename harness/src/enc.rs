//! Streaming encoder histories: C03/C04 (chunking and source-form independence),
//! C06/C08 (bounds, progress), C09 (NCR replacement = manual procedure), C12 (output decodes back).
//!
//! Operation line (see lean/Driver/Ops/Enc.lean):
//!   enc <ENC> <u8|u16> <raw|repl> <units hex> <call>;<call>;… => ok
use crate::dec::{enc_by_ident, ALL};
use crate::util::*;
use encoding_rs::*;

#[derive(Clone, Debug, PartialEq, Eq)]
pub enum ERes {
    InputEmpty,
    OutputFull,
    Unmappable(u32),
    Panic(String),
}

impl ERes {
    pub fn show(&self) -> String {
        match self {
            ERes::InputEmpty => "I".into(),
            ERes::OutputFull => "O".into(),
            ERes::Unmappable(c) => format!("U{:x}", c),
            ERes::Panic(_) => "P".into(),
        }
    }
}

#[derive(Clone, Debug)]
pub struct ECall {
    pub n: usize,
    pub cap: usize,
    pub last: bool,
    pub res: ERes,
    pub read: usize,
    pub bytes: Vec<u8>,
    pub has_pending: bool,
    pub had_unmappables: Option<bool>,
    /// max_buffer_length_from_<src>_without_replacement(n) / …_if_no_unmappables(n), before the call
    pub q: Option<(Option<usize>, Option<usize>)>,
    /// the same two queries for a unit count near the overflow thresholds
    pub qx: Option<(usize, Option<usize>, Option<usize>)>,
    pub guard_broken: bool,
}

#[derive(Clone, Debug)]
pub struct EPlan {
    pub enc: &'static Encoding,
    pub utf16: bool,
    pub repl: bool,
    /// the text as UTF-16 units (may contain unpaired surrogates when `utf16`)
    pub units16: Vec<u16>,
    /// chunk ends in source units of the chosen source form, at character boundaries
    pub cuts: Vec<usize>,
    pub caps: Vec<usize>,
}

impl EPlan {
    pub fn src8(&self) -> String {
        String::from_utf16_lossy(&self.units16)
    }
    pub fn src_len(&self) -> usize {
        if self.utf16 {
            self.units16.len()
        } else {
            self.src8().len()
        }
    }
}

const GUARD: usize = 8;

/// when set, `one_call` goes through the `Vec<u8>`-receiving methods (`encode_from_utf8_to_vec*`), with a
/// vector whose spare capacity is exactly the call's capacity and holds old bytes (C05/C06/C18: the spare
/// capacity is exposed as initialised output)
pub static VEC_SINK: std::sync::atomic::AtomicBool = std::sync::atomic::AtomicBool::new(false);

pub fn one_call(e: &mut Encoder, p: &EPlan, src8: &str, src16: &[u16], cap: usize, last: bool, fill: u8, align: usize) -> ECall {
    let mut buf = vec![fill; cap + 2 * GUARD + 16];
    let off = GUARD + (align % 16);
    let mut rec = ECall {
        n: if p.utf16 { src16.len() } else { src8.len() },
        cap,
        last,
        res: ERes::InputEmpty,
        read: 0,
        bytes: Vec::new(),
        has_pending: false,
        had_unmappables: None,
        q: None,
        qx: None,
        guard_broken: false,
    };
    {
        let n = crate::util::big_n(rec.n * 7 + cap % 36 + (last as usize));
        rec.qx = Some(if p.utf16 {
            (n, e.max_buffer_length_from_utf16_without_replacement(n), e.max_buffer_length_from_utf16_if_no_unmappables(n))
        } else {
            (n, e.max_buffer_length_from_utf8_without_replacement(n), e.max_buffer_length_from_utf8_if_no_unmappables(n))
        });
    }
    rec.q = Some(if p.utf16 {
        (e.max_buffer_length_from_utf16_without_replacement(src16.len()), e.max_buffer_length_from_utf16_if_no_unmappables(src16.len()))
    } else {
        (e.max_buffer_length_from_utf8_without_replacement(src8.len()), e.max_buffer_length_from_utf8_if_no_unmappables(src8.len()))
    });
    if VEC_SINK.load(std::sync::atomic::Ordering::Relaxed) && !p.utf16 {
        let old = fill ^ 0x5A;
        let mut v: Vec<u8> = Vec::with_capacity(cap + 5 + (align % 16));
        let total = v.capacity();
        v.resize(total, old);
        v.truncate(total - cap); // spare capacity is now exactly `cap` and holds old bytes
        let before = v.len();
        let repl = p.repl;
        let s8 = src8.to_string();
        let r = {
            let eref = std::panic::AssertUnwindSafe(&mut *e);
            let vref = std::panic::AssertUnwindSafe(&mut v);
            catch(move || {
                let mut eref = eref;
                let mut vref = vref;
                if repl {
                    let (r, rd, hu) = eref.encode_from_utf8_to_vec(&s8, &mut vref, last);
                    (
                        match r {
                            CoderResult::InputEmpty => ERes::InputEmpty,
                            CoderResult::OutputFull => ERes::OutputFull,
                        },
                        rd,
                        Some(hu),
                    )
                } else {
                    let (r, rd) = eref.encode_from_utf8_to_vec_without_replacement(&s8, &mut vref, last);
                    (
                        match r {
                            EncoderResult::InputEmpty => ERes::InputEmpty,
                            EncoderResult::OutputFull => ERes::OutputFull,
                            EncoderResult::Unmappable(c) => ERes::Unmappable(c as u32),
                        },
                        rd,
                        None,
                    )
                }
            })
        };
        match r {
            Ok((res, rd, hu)) => {
                rec.res = res;
                rec.read = rd;
                rec.had_unmappables = hu;
                if v.len() < before || v.len() > total || v.capacity() != total {
                    rec.guard_broken = true;
                } else {
                    rec.bytes = v[before..].to_vec();
                }
                if v[..before.min(v.len())].iter().any(|&b| b != old) {
                    rec.guard_broken = true;
                }
            }
            Err(m) => rec.res = ERes::Panic(m),
        }
        rec.has_pending = e.has_pending_state();
        return rec;
    }
    let r = {
        let dst = &mut buf[off..off + cap];
        let eref = std::panic::AssertUnwindSafe(&mut *e);
        let dst = std::panic::AssertUnwindSafe(dst);
        let utf16 = p.utf16;
        let repl = p.repl;
        let s8 = src8.to_string();
        let s16 = src16.to_vec();
        catch(move || {
            let mut eref = eref;
            let mut dst = dst;
            if repl {
                let (r, rd, wr, hu) = if utf16 { eref.encode_from_utf16(&s16, &mut dst, last) } else { eref.encode_from_utf8(&s8, &mut dst, last) };
                (
                    match r {
                        CoderResult::InputEmpty => ERes::InputEmpty,
                        CoderResult::OutputFull => ERes::OutputFull,
                    },
                    rd,
                    wr,
                    Some(hu),
                )
            } else {
                let (r, rd, wr) = if utf16 {
                    eref.encode_from_utf16_without_replacement(&s16, &mut dst, last)
                } else {
                    eref.encode_from_utf8_without_replacement(&s8, &mut dst, last)
                };
                (
                    match r {
                        EncoderResult::InputEmpty => ERes::InputEmpty,
                        EncoderResult::OutputFull => ERes::OutputFull,
                        EncoderResult::Unmappable(c) => ERes::Unmappable(c as u32),
                    },
                    rd,
                    wr,
                    None,
                )
            }
        })
    };
    match r {
        Ok((res, rd, wr, hu)) => {
            rec.res = res;
            rec.read = rd;
            rec.had_unmappables = hu;
            rec.bytes = buf[off..off + wr.min(cap)].to_vec();
            if wr > cap {
                rec.guard_broken = true;
            }
        }
        Err(m) => rec.res = ERes::Panic(m),
    }
    for (i, b) in buf.iter().enumerate() {
        if (i < off || i >= off + cap) && *b != fill {
            rec.guard_broken = true;
        }
    }
    rec.has_pending = e.has_pending_state();
    rec
}

pub struct EOutcome {
    pub calls: Vec<ECall>,
    pub aborted: Option<String>,
}

pub fn min_cap(repl: bool) -> usize {
    if repl {
        14
    } else {
        4
    }
}

pub fn run_plan(p: &EPlan, fill: u8) -> EOutcome {
    let mut e = p.enc.new_encoder();
    let s8 = p.src8();
    let mut calls = Vec::new();
    let mut start = 0usize;
    let mut capi = 0usize;
    let limit = 6 * p.src_len() + 40 + 4 * p.cuts.len();
    let mut aborted = None;
    'chunks: for (ci, &end) in p.cuts.iter().enumerate() {
        let last = ci + 1 == p.cuts.len();
        let mut off = start;
        let mut stuck = 0;
        loop {
            let mut cap = p.caps[capi % p.caps.len()];
            capi += 1;
            if cap == crate::dec::QUERY_CAP {
                let n = end - off;
                let q = match (p.utf16, p.repl) {
                    (true, true) => e.max_buffer_length_from_utf16_if_no_unmappables(n),
                    (true, false) => e.max_buffer_length_from_utf16_without_replacement(n),
                    (false, true) => e.max_buffer_length_from_utf8_if_no_unmappables(n),
                    (false, false) => e.max_buffer_length_from_utf8_without_replacement(n),
                };
                cap = q.unwrap_or(1 << 20);
            }
            if stuck >= 2 && cap < min_cap(p.repl) {
                cap = min_cap(p.repl);
            }
            if !p.utf16 && !s8.is_char_boundary(off) {
                // the previous call reported a `read` inside a character: the documented caller loop would
                // panic on `&src[read..]` (C06: read is a character boundary); stop this history here
                aborted = Some("read-inside-character".into());
                break 'chunks;
            }
            let (c8, c16): (&str, &[u16]) = if p.utf16 { ("", &p.units16[off..end]) } else { (&s8[off..end], &[]) };
            let rec = one_call(&mut e, p, c8, c16, cap, last, fill, capi);
            let res = rec.res.clone();
            let progress = rec.read > 0 || !rec.bytes.is_empty();
            off += rec.read.min(end - off);
            calls.push(rec);
            match res {
                ERes::Panic(_) => {
                    aborted = Some("panic".into());
                    break 'chunks;
                }
                ERes::InputEmpty => break,
                ERes::OutputFull => {
                    if progress {
                        stuck = 0
                    } else {
                        stuck += 1
                    }
                }
                ERes::Unmappable(_) => {}
            }
            if calls.len() > limit {
                aborted = Some("call-limit".into());
                break 'chunks;
            }
        }
        start = end;
    }
    EOutcome { calls, aborted }
}

pub fn show_calls(calls: &[ECall]) -> String {
    if calls.is_empty() {
        return ".".into();
    }
    calls
        .iter()
        .map(|c| {
            let mut s = format!(
                "n={},c={},l={},r={},rd={},w={},hp={}",
                c.n,
                c.cap,
                if c.last { 1 } else { 0 },
                c.res.show(),
                c.read,
                hex(&c.bytes),
                if c.has_pending { 1 } else { 0 }
            );
            if let Some(hu) = c.had_unmappables {
                s.push_str(&format!(",hu={}", if hu { 1 } else { 0 }));
            }
            if let Some((a, b)) = c.q {
                let f = |x: Option<usize>| x.map(|v| v.to_string()).unwrap_or_else(|| "-".into());
                s.push_str(&format!(",q={}/{}", f(a), f(b)));
            }
            if let Some((n, a, b)) = c.qx {
                let f = |x: Option<usize>| x.map(|v| v.to_string()).unwrap_or_else(|| "-".into());
                s.push_str(&format!(",qx={}:{}/{}", n, f(a), f(b)));
            }
            s
        })
        .collect::<Vec<_>>()
        .join(";")
}

fn units_field(p: &EPlan) -> String {
    if p.utf16 {
        hex16(&p.units16)
    } else {
        hex(p.src8().as_bytes())
    }
}

pub fn op_lhs(p: &EPlan, calls: &[ECall]) -> String {
    format!("enc {} {} {} {} {}", ident(p.enc), if p.utf16 { "u16" } else { "u8" }, if p.repl { "repl" } else { "raw" }, units_field(p), show_calls(calls))
}

pub fn plan_lhs(p: &EPlan) -> String {
    format!(
        "encplan {} {} {} {} {} {}",
        ident(p.enc),
        if p.utf16 { "u16" } else { "u8" },
        if p.repl { "repl" } else { "raw" },
        hex16(&p.units16),
        nats(&p.cuts),
        nats(&p.caps)
    )
}

#[derive(PartialEq, Eq, Debug, Clone)]
pub struct ESummary {
    pub bytes: Vec<u8>,
    pub unmappables: Vec<u32>,
    pub had: bool,
}

pub fn summarize(o: &EOutcome) -> ESummary {
    let mut bytes = Vec::new();
    let mut unmappables = Vec::new();
    let mut had = false;
    for c in &o.calls {
        bytes.extend_from_slice(&c.bytes);
        if let ERes::Unmappable(u) = c.res {
            unmappables.push(u);
            had = true;
        }
        if c.had_unmappables == Some(true) {
            had = true;
        }
    }
    ESummary { bytes, unmappables, had }
}

fn single(p: &EPlan, utf16: bool, repl: bool) -> EPlan {
    let mut q = p.clone();
    q.utf16 = utf16;
    q.repl = repl;
    q.cuts = vec![q.src_len()];
    q.caps = vec![p.units16.len() * 12 + 64];
    q
}

/// which escape state the bytes emitted so far leave an ISO-2022-JP stream in
fn iso_state_is_ascii(bytes: &[u8]) -> bool {
    let mut ascii = true;
    let mut i = 0;
    while i + 2 < bytes.len() + 0 {
        if bytes[i] == 0x1B {
            ascii = bytes[i + 1] == 0x28 && bytes[i + 2] == 0x42;
            i += 3;
        } else {
            i += 1;
        }
    }
    ascii
}

/// the text the complete output must decode to: unmappables as NCRs, documented folds applied
/// The documented deviations from the identity when encoder output is decoded again (the exact table is the
/// theorem `Thm.C12.folds_exact`): EUC-JP / Shift_JIS decode U+00A5, U+203E as the ASCII bytes they are
/// written as, U+2212 comes back as U+FF0D; ISO-2022-JP writes half-width katakana as full-width katakana and
/// U+2212 as U+FF0D; GBK / gb18030 write 18 private-use code points with the bytes the 2022 decoder reads as
/// the standard characters.  Everything else must come back as itself - NOT as whatever the codec under test
/// happens to decode it to.
fn fold_char(out_enc: &'static Encoding, ch: char) -> char {
    const KATAKANA: [u16; 63] = [
        0x3002, 0x300C, 0x300D, 0x3001, 0x30FB, 0x30F2, 0x30A1, 0x30A3, 0x30A5, 0x30A7, 0x30A9, 0x30E3, 0x30E5, 0x30E7, 0x30C3, 0x30FC,
        0x30A2, 0x30A4, 0x30A6, 0x30A8, 0x30AA, 0x30AB, 0x30AD, 0x30AF, 0x30B1, 0x30B3, 0x30B5, 0x30B7, 0x30B9, 0x30BB, 0x30BD, 0x30BF,
        0x30C1, 0x30C4, 0x30C6, 0x30C8, 0x30CA, 0x30CB, 0x30CC, 0x30CD, 0x30CE, 0x30CF, 0x30D2, 0x30D5, 0x30D8, 0x30DB, 0x30DE, 0x30DF,
        0x30E0, 0x30E1, 0x30E2, 0x30E4, 0x30E6, 0x30E8, 0x30E9, 0x30EA, 0x30EB, 0x30EC, 0x30ED, 0x30EF, 0x30F3, 0x309B, 0x309C,
    ];
    const GB: [(u32, u32); 18] = [
        (0xE78D, 0xFE10), (0xE78E, 0xFE12), (0xE78F, 0xFE11), (0xE790, 0xFE13), (0xE791, 0xFE14), (0xE792, 0xFE15), (0xE793, 0xFE16),
        (0xE794, 0xFE17), (0xE795, 0xFE18), (0xE796, 0xFE19), (0xE81E, 0x9FB4), (0xE826, 0x9FB5), (0xE82B, 0x9FB6), (0xE82C, 0x9FB7),
        (0xE832, 0x9FB8), (0xE843, 0x9FB9), (0xE854, 0x9FBA), (0xE864, 0x9FBB),
    ];
    let c = ch as u32;
    let f = if out_enc == encoding_rs::EUC_JP || out_enc == encoding_rs::SHIFT_JIS {
        match c {
            0xA5 => 0x5C,
            0x203E => 0x7E,
            0x2212 => 0xFF0D,
            _ => c,
        }
    } else if out_enc == ISO_2022_JP {
        if c == 0x2212 {
            0xFF0D
        } else if (0xFF61..=0xFF9F).contains(&c) {
            KATAKANA[(c - 0xFF61) as usize] as u32
        } else {
            c
        }
    } else if out_enc == encoding_rs::GBK || out_enc == encoding_rs::GB18030 {
        GB.iter().find(|&&(a, _)| a == c).map(|&(_, b)| b).unwrap_or(c)
    } else {
        c
    };
    char::from_u32(f).unwrap_or(ch)
}

fn expected_roundtrip(enc: &'static Encoding, units16: &[u16]) -> String {
    let text = String::from_utf16_lossy(units16);
    let out_enc = enc.output_encoding();
    let mut s = String::new();
    for ch in text.chars() {
        let mut tmp = [0u8; 4];
        let one = ch.encode_utf8(&mut tmp);
        let (_, _, unm) = out_enc.encode(one);
        if unm {
            // ISO-2022-JP reports its forbidden controls (U+000E, U+000F, U+001B) as U+FFFD
            let rep = if out_enc == ISO_2022_JP && (ch == '\u{0E}' || ch == '\u{0F}' || ch == '\u{1B}') { 0xFFFD } else { ch as u32 };
            s.push_str(&format!("&#{};", rep));
        } else {
            s.push(fold_char(out_enc, ch));
        }
    }
    s
}

pub fn oracles(out: &mut Out, p: &EPlan, o: &EOutcome, props: &[&str]) {
    let want = |x: &str| props.contains(&x);
    let lhs = plan_lhs(p);
    out.oracle_evals += 1;
    let minc = min_cap(p.repl);
    let all_min = o.calls.iter().all(|c| c.cap >= minc);
    // C07: a destination as large as the matching query never yields OutputFull (with replacement:
    // whenever the input has no unmappable character)
    if want("C07") && p.caps.iter().all(|&c| c == crate::dec::QUERY_CAP) {
        let any_unmappable = o.calls.iter().any(|c| c.had_unmappables == Some(true));
        for (i, c) in o.calls.iter().enumerate() {
            if c.res == ERes::OutputFull && !(p.repl && any_unmappable) {
                out.fail("C07", &lhs, format!("call#{} OutputFull although cap={} is the value of the matching max_buffer_length query for {} units", i, c.cap, c.n));
            }
        }
    }
    for (i, c) in o.calls.iter().enumerate() {
        if want("C06") {
            if c.guard_broken {
                out.fail("C06", &lhs, format!("call#{} wrote outside its destination (cap={})", i, c.cap));
            }
            if c.read > c.n {
                out.fail("C06", &lhs, format!("call#{} read {} > source length {}", i, c.read, c.n));
            }
            if c.res == ERes::InputEmpty && c.read != c.n {
                out.fail("C06", &lhs, format!("call#{} InputEmpty with read {} != {}", i, c.read, c.n));
            }
        }
        if let ERes::Panic(m) = &c.res {
            if c.cap >= minc && all_min {
                for pr in ["C06", "C08"] {
                    if want(pr) {
                        out.fail(pr, &lhs, format!("call#{} panicked with cap={} >= documented minimum: {}", i, c.cap, m));
                    }
                }
            }
        }
        if c.res == ERes::OutputFull && c.cap >= minc && c.read == 0 && c.bytes.is_empty() && want("C08") {
            out.fail("C08", &lhs, format!("call#{} OutputFull without progress (cap={})", i, c.cap));
        }
    }
    if all_min {
        if let Some(a) = &o.aborted {
            if a == "call-limit" && want("C08") {
                out.fail("C08", &lhs, format!("caller loop did not terminate within {} calls", o.calls.len()));
            }
        }
        if o.aborted.is_none() && o.calls.len() > 4 * p.src_len() + 16 + 2 * p.cuts.len() && want("C08") {
            out.fail("C08", &lhs, format!("{} calls for {} units ({} chunks)", o.calls.len(), p.src_len(), p.cuts.len()));
        }
    }
    if let Some(a) = &o.aborted {
        if a == "read-inside-character" {
            // every encoder property that follows the documented caller loop is violated by such a call
            for pid in ["C06", "C04", "C03", "C08", "C09", "C12", "C18"] {
                if want(pid) {
                    out.fail(pid, &lhs, format!("call#{} reported a read count that ends inside a UTF-8 character: the caller's `&src[read..]` panics", o.calls.len().saturating_sub(1)));
                }
            }
        }
    }
    if o.aborted.is_some() {
        return;
    }
    let sum = summarize(o);
    // C04: same as one call on the whole text, same source form
    if want("C04") || want("C03") {
        let sp = single(p, p.utf16, p.repl);
        let so = run_plan(&sp, 0);
        let ssum = summarize(&so);
        if ssum != sum {
            for pr in ["C04"] {
                if want(pr) {
                    out.fail(pr, &lhs, format!("chunked history differs from the single call: chunked={} {:?} single={} {:?}", hex(&sum.bytes), sum.unmappables, hex(&ssum.bytes), ssum.unmappables));
                }
            }
        }
        // the other source form
        let op = single(p, !p.utf16, p.repl);
        let oo = run_plan(&op, 0);
        let osum = summarize(&oo);
        if osum != sum && want("C04") {
            out.fail("C04", &lhs, format!("UTF-8 and UTF-16 sources disagree: this={} {:?} other={} {:?}", hex(&sum.bytes), sum.unmappables, hex(&osum.bytes), osum.unmappables));
        }
        // one-shot API
        if p.repl && want("C03") {
            let s8tmp = p.src8();
            let (b, _, hu) = p.enc.encode(&s8tmp);
            if b.as_ref() != &sum.bytes[..] || hu != sum.had {
                out.fail("C03", &lhs, "streaming with replacement differs from Encoding::encode".into());
            }
        }
    }
    // C09: NCR replacement == manual procedure
    if want("C09") {
        let rp = EPlan { repl: !p.repl, caps: p.caps.iter().map(|c| (*c).max(14)).collect(), ..p.clone() };
        let ro = run_plan(&rp, 0);
        if ro.aborted.is_none() {
            let (rawp_o, rep_sum) = if p.repl { (&ro, sum.clone()) } else { (o, summarize(&ro)) };
            let mut manual = Vec::new();
            let mut any = false;
            for c in &rawp_o.calls {
                manual.extend_from_slice(&c.bytes);
                if let ERes::Unmappable(u) = c.res {
                    manual.extend_from_slice(format!("&#{};", u).as_bytes());
                    any = true;
                }
            }
            if manual != rep_sum.bytes {
                out.fail("C09", &lhs, format!("built-in NCR replacement != manual procedure: builtin={} manual={}", hex(&rep_sum.bytes), hex(&manual)));
            }
            if any != rep_sum.had {
                out.fail("C09", &lhs, format!("had_unmappables={} but the raw API reported unmappables={}", rep_sum.had, any));
            }
        }
    }
    // C12: the output so far always decodes without error; pending state; round trip
    if want("C12") {
        let out_enc = p.enc.output_encoding();
        let mut sofar: Vec<u8> = Vec::new();
        for (i, c) in o.calls.iter().enumerate() {
            sofar.extend_from_slice(&c.bytes);
            if let ERes::Unmappable(u) = c.res {
                // the manual procedure appends the NCR before going on
                sofar.extend_from_slice(format!("&#{};", u).as_bytes());
            }
            let mut d = out_enc.new_decoder_without_bom_handling();
            let mut dst = vec![0u16; sofar.len() + 8];
            let (r, _, _) = d.decode_to_utf16_without_replacement(&sofar, &mut dst, false);
            if let DecoderResult::Malformed(_, _) = r {
                out.fail("C12", &lhs, format!("after call#{} the output so far does not decode cleanly: {}", i, hex(&sofar)));
                break;
            }
            if out_enc == ISO_2022_JP {
                let expect_pending = !iso_state_is_ascii(&sofar);
                if c.has_pending != expect_pending {
                    out.fail("C12", &lhs, format!("after call#{} has_pending_state()={} but the bytes emitted say {}", i, c.has_pending, expect_pending));
                }
            } else if c.has_pending {
                out.fail("C12", &lhs, format!("after call#{} has_pending_state() is true for a stateless encoder", i));
            }
        }
        let complete = o.calls.last().map(|c| c.last && c.res == ERes::InputEmpty).unwrap_or(false);
        if complete {
            if out_enc == ISO_2022_JP && !iso_state_is_ascii(&sofar) {
                out.fail("C12", &lhs, "final output does not end in the ASCII state".into());
            }
            let (back, had_err) = out_enc.decode_without_bom_handling(&sofar);
            let want_text = expected_roundtrip(p.enc, &p.units16);
            if had_err || back != want_text {
                out.fail("C12", &lhs, format!("complete output decodes to {:?}, expected {:?}", back, want_text));
            }
        }
    }
    // C05/C06/C18: the Vec-receiving methods behave exactly like the slice methods on a destination of
    // the size of the spare capacity, whatever the spare capacity held, and leave the vector's old contents alone
    if (want("C18") || want("C05") || want("C06") || want("C04")) && !p.utf16 && o.aborted.is_none() {
        VEC_SINK.store(true, std::sync::atomic::Ordering::Relaxed);
        let o2 = run_plan(p, 0x33);
        VEC_SINK.store(false, std::sync::atomic::Ordering::Relaxed);
        out.oracle_evals += 1;
        let which = if want("C18") { "C18" } else if want("C05") { "C05" } else if want("C06") { "C06" } else { "C04" };
        if o2.calls.len() != o.calls.len() {
            out.fail(which, &lhs, format!("Vec-receiving methods: {} calls instead of {} for the same plan", o2.calls.len(), o.calls.len()));
        } else {
            for (i, (a, b)) in o.calls.iter().zip(o2.calls.iter()).enumerate() {
                if b.guard_broken {
                    out.fail(which, &lhs, format!("call#{} Vec-receiving method changed the vector's old contents, its capacity, or shrank it", i));
                }
                if a.res != b.res || a.read != b.read || a.bytes != b.bytes || a.had_unmappables != b.had_unmappables || a.has_pending != b.has_pending {
                    out.fail(which, &lhs, format!("call#{} Vec-receiving method differs from the slice method with the same capacity: {} read {} bytes {} vs {} read {} bytes {}", i, b.res.show(), b.read, hex(&b.bytes), a.res.show(), a.read, hex(&a.bytes)));
                    break;
                }
            }
        }
    }
    // C18: independent of the destination's old contents
    if want("C18") {
        for fill in [0xFFu8, 0xA5u8] {
            let o2 = run_plan(p, fill);
            if show_calls(&o.calls) != show_calls(&o2.calls) {
                out.fail("C18", &lhs, format!("results depend on the destination's old contents (fill 0x00 vs 0x{:02X})", fill));
            }
        }
    }
}

// ---------------------------------------------------------------------------

/// class-representative characters
pub const CHARS: &[u32] = &[
    0x00, 0x0E, 0x0F, 0x1B, 0x20, 0x26, 0x3B, 0x3C, 0x41, 0x5C, 0x61, 0x7E, 0x7F, 0x80, 0xA0, 0xA5, 0xA9, 0xE9, 0xFF, 0x100, 0x17F,
    0x391, 0x3A9, 0x401, 0x410, 0x44F, 0x5D0, 0x627, 0xE01, 0x2010, 0x2015, 0x2016, 0x203E, 0x20AC, 0x2116, 0x2212, 0x2225, 0x2500,
    0x3000, 0x3001, 0x3002, 0x3041, 0x3042, 0x3093, 0x30A1, 0x30AB, 0x30F6, 0x30FB, 0x4E00, 0x4E02, 0x4E5A, 0x4EDD, 0x5000, 0x9FA0,
    0x9FA5, 0x9FB0, 0xAC00, 0xAC02, 0xD7A3, 0xE000, 0xE5E5, 0xE78D, 0xE7C7, 0xE81E, 0xE864, 0xF780, 0xF7FF, 0xF929, 0xFA0E, 0xFF01,
    0xFF5E, 0xFF61, 0xFF66, 0xFF70, 0xFF9D, 0xFF9F, 0xFFE2, 0xFFE5, 0xFFFD, 0xFFFF, 0x10000, 0x1F4A9, 0x2000B, 0x200CC, 0x2008A,
    0x27607, 0x2F8A6, 0x10FFFF,
];

pub fn gen_units(rng: &mut Rng, maxchars: usize, surrogates: bool) -> Vec<u16> {
    let n = rng.below(maxchars + 1);
    let mut v = Vec::new();
    for _ in 0..n {
        if surrogates && rng.chance(1, 8) {
            v.push(if rng.chance(1, 2) { 0xD800 + rng.below(0x400) as u16 } else { 0xDC00 + rng.below(0x400) as u16 });
            continue;
        }
        let consts = source_constants();
        let c = if rng.chance(1, 8) {
            rng.below(0x110000) as u32
        } else if !consts.is_empty() && rng.chance(1, 6) {
            *rng.pick(consts)
        } else {
            *rng.pick(CHARS)
        };
        if let Some(ch) = char::from_u32(c) {
            let mut b = [0u16; 2];
            v.extend_from_slice(ch.encode_utf16(&mut b));
        }
    }
    v
}

/// character boundaries (in units of the chosen source form)
fn boundaries(p: &EPlan) -> Vec<usize> {
    let mut b = vec![0usize];
    if p.utf16 {
        let mut i = 0;
        while i < p.units16.len() {
            let u = p.units16[i];
            if (0xD800..0xDC00).contains(&u) && i + 1 < p.units16.len() && (0xDC00..0xE000).contains(&p.units16[i + 1]) {
                i += 2;
            } else {
                i += 1;
            }
            b.push(i);
        }
    } else {
        let s = p.src8();
        for (i, _) in s.char_indices().skip(1) {
            b.push(i);
        }
        b.push(s.len());
    }
    b
}

pub fn gen_cuts(rng: &mut Rng, p: &EPlan) -> Vec<usize> {
    let b = boundaries(p);
    let len = *b.last().unwrap();
    let mut cuts = Vec::new();
    match rng.below(5) {
        0 => {}
        1 => cuts.extend_from_slice(&b[1..]),
        _ => {
            let n = rng.below(b.len().min(6) + 1);
            for _ in 0..n {
                cuts.push(*rng.pick(&b));
            }
        }
    }
    cuts.sort();
    cuts.push(len);
    cuts.dedup();
    if *cuts.last().unwrap() != len {
        cuts.push(len);
    }
    if rng.chance(1, 4) {
        cuts.push(len);
    }
    cuts
}

pub fn gen_caps(rng: &mut Rng, repl: bool, allow_small: bool) -> Vec<usize> {
    let m = min_cap(repl);
    let choices: Vec<usize> = vec![m, m, m + 1, m + 2, m + 3, m + 4, m + 6, m + 10, 20, 24, 64, 1000];
    let n = 1 + rng.below(5);
    let mut v: Vec<usize> = (0..n).map(|_| *rng.pick(&choices)).collect();
    if allow_small && rng.chance(1, 10) {
        v.push(rng.below(m));
    }
    v
}

/// run the plan and the property oracles without recording an operation line (search mode)
pub fn emit_oracles(out: &mut Out, p: &EPlan, props: &[&str]) {
    trace_op(&plan_lhs(p));
    let o = run_plan(p, 0);
    oracles(out, p, &o, props);
}

pub fn emit(out: &mut Out, p: &EPlan, props: &[&str]) {
    trace_op(&plan_lhs(p));
    let o = run_plan(p, 0);
    if o.calls.iter().all(|c| c.cap >= min_cap(p.repl)) {
        out.op(op_lhs(p, &o.calls), "ok".into());
    }
    oracles(out, p, &o, props);
}

/// like `emit`, but the history is recorded whatever its capacities (the model has the `NCR_EXTRA` carve-out
/// and the space checks of every encoder; the small-capacity regime of `generate` uses it)
pub fn emit_any_cap(out: &mut Out, p: &EPlan, props: &[&str]) {
    trace_op(&plan_lhs(p));
    let o = run_plan(p, 0);
    if o.aborted.is_none() {
        out.op(op_lhs(p, &o.calls), "ok".into());
    }
    oracles(out, p, &o, props);
}

/// one encoding per encoder implementation (three single-byte ones) for the small-capacity regime
fn small_cap_encodings() -> Vec<&'static Encoding> {
    use encoding_rs::*;
    vec![WINDOWS_1252, IBM866, X_USER_DEFINED, UTF_8, BIG5, EUC_KR, EUC_JP, SHIFT_JIS, GBK, GB18030, ISO_2022_JP]
}

fn props_for(prop: &str) -> Option<Vec<&'static str>> {
    match prop {
        "C03" => Some(vec!["C03"]),
        "C04" => Some(vec!["C04"]),
        "C12" => Some(vec!["C12"]),
        "C06" => Some(vec!["C06"]),
        "C08" => Some(vec!["C08"]),
        "C09" => Some(vec!["C09"]),
        "C18" => Some(vec!["C18"]),
        "C07" => Some(vec!["C07"]),
        _ => None,
    }
}

pub fn generate(prop: &str, out: &mut Out, thorough: bool, seed: u64) -> bool {
    let props = match props_for(prop) {
        Some(p) => p,
        None => return false,
    };
    let mut rng = Rng::new(seed ^ 0xE4C0 ^ (prop.as_bytes()[2] as u64) << 8);
    // one encoder per distinct output encoding + the aliases that encode as UTF-8
    let per = if thorough { 2500 } else { 150 };
    for &e in ALL.iter() {
        for i in 0..per {
            let utf16 = rng.chance(1, 2);
            let maxchars = if i % 6 == 5 { 40 } else { 7 };
            let units16 = gen_units(&mut rng, maxchars, utf16);
            let repl = match prop {
                "C09" => rng.chance(1, 2),
                "C12" => rng.chance(2, 3),
                _ => rng.chance(1, 3),
            };
            let mut p = EPlan { enc: e, utf16, repl, units16, cuts: vec![], caps: vec![] };
            p.cuts = gen_cuts(&mut rng, &p);
            p.caps = if prop == "C07" && rng.chance(3, 4) { vec![crate::dec::QUERY_CAP] } else { gen_caps(&mut rng, repl, prop == "C06") };
            emit(out, &p, &props);
        }
        // exact-fit regime: the destination of the first call ends exactly after the bytes of the k-th
        // character (for several k), the rest of the text follows in the same source buffer
        let fits = if thorough { 60 } else { 10 };
        for i in 0..fits {
            let utf16 = i % 2 == 0;
            let units16 = gen_units(&mut rng, if i % 3 == 2 { 24 } else { 8 }, false);
            if units16.is_empty() || prop == "C07" {
                continue;
            }
            let text = String::from_utf16_lossy(&units16);
            let mut cum = Vec::new();
            let mut acc = 0usize;
            for ch in text.chars() {
                let mut b = [0u8; 4];
                let (bytes, _, _) = e.encode(ch.encode_utf8(&mut b));
                acc += bytes.len();
                cum.push(acc);
            }
            let ks: Vec<usize> = if cum.len() <= 6 { (0..cum.len()).collect() } else { (0..6).map(|_| rng.below(cum.len())).collect() };
            for k in ks {
                for repl in [false, true] {
                    let c0 = cum[k].max(min_cap(repl));
                    let mut p = EPlan { enc: e, utf16, repl, units16: units16.clone(), cuts: vec![], caps: vec![c0, 1000, 1000, 1000, 1000, 1000, 1000, 1000] };
                    p.cuts = vec![p.src_len()];
                    emit(out, &p, &props);
                }
            }
        }
        // bulk / fast-path regime: an ASCII run around a stride boundary, one non-ASCII character
        // (mappable, unmappable, astral, U+0080, a pair ending in DFFF), a short tail; capacities around the run length
        let runs: &[usize] = if thorough { &[7, 8, 15, 16, 17, 23, 24, 31, 32, 33, 40, 47, 48, 63, 64, 65, 127, 128, 129] } else { &[15, 16, 17, 31, 32, 33, 40, 47, 48, 63, 64, 65] };
        const AFTER: &[u32] = &[0xE9, 0x3042, 0x80, 0x1F4A9, 0x10FFFF, 0xE5E5, 0x20AC, 0xFFFD];
        for (ri, &l) in runs.iter().enumerate() {
            for variant in 0..(if thorough { 8 } else { 3 }) {
                let mut text: String = (0..l).map(|j| b"abc, .x0;"[(j + ri) % 9] as char).collect();
                text.push(char::from_u32(AFTER[(variant + ri) % AFTER.len()]).unwrap());
                text.push_str(&"yz"[..(variant % 3).min(2)]);
                let utf16 = (variant + ri) % 2 == 0;
                let repl = matches!(prop, "C09" | "C12") || variant % 3 == 1;
                let mut p = EPlan { enc: e, utf16, repl, units16: text.encode_utf16().collect(), cuts: vec![], caps: vec![] };
                p.cuts = vec![p.src_len()];
                let m = min_cap(repl);
                p.caps = if prop == "C07" { vec![crate::dec::QUERY_CAP] } else { vec![(l + rng.below(5)).max(m + 1) - 1, m + rng.below(4)] };
                emit(out, &p, &props);
            }
        }
        // small-capacity regime (model-mutation audit EN21 / EN22 / EN26: the `NCR_EXTRA` carve-out of
        // `encode_from_utf*` and the "NCR fills the buffer" exits were never compared with the model, because
        // histories with a capacity below the documented minimum are not recorded by `emit`): short texts
        // built from the classes {ASCII, mappable, unmappable, U+00A5 (ISO-2022-JP Roman state)}, ONE capacity
        // 0, 1, 2, … for the first call (then ample space), as one last call and as a non-last call followed
        // by an empty last call whose capacity is the small one (end-of-stream block with a pending state).
        if matches!(prop, "C04" | "C06" | "C08" | "C09" | "C12") && small_cap_encodings().contains(&e) {
            let mappable = ['\u{E9}', '\u{3042}', '\u{AC00}', '\u{4E2D}', '\u{42F}', '\u{F780}', '\u{A5}']
                .iter()
                .copied()
                .find(|ch| {
                    let mut b = [0u8; 4];
                    !e.encode(ch.encode_utf8(&mut b)).2
                })
                .unwrap_or('b');
            let unmappable = ['\u{1F4A9}', '\u{E5E5}'].iter().copied().find(|ch| {
                let mut b = [0u8; 4];
                e.encode(ch.encode_utf8(&mut b)).2
            });
            let mut texts: Vec<String> = vec![String::new(), "a".into(), mappable.to_string(), format!("a{}", mappable), format!("{}a", mappable)];
            if let Some(u) = unmappable {
                for t in [format!("{}", u), format!("a{}", u), format!("{}{}", mappable, u), format!("{}a", u), format!("{}{}", u, mappable), format!("{}{}", u, u)] {
                    texts.push(t);
                }
                if e == encoding_rs::ISO_2022_JP {
                    for t in [format!("{}{}", '\u{A5}', u), "\u{A5}\u{E9}".to_string(), "\u{3042}\u{E9}".to_string(), "\u{A5}\u{E9}a".to_string()] {
                        texts.push(t);
                    }
                }
            }
            if e == encoding_rs::ISO_2022_JP {
                texts.push("\u{A5}".into());
                texts.push("\u{A5}a".into());
                texts.push("\u{3042}\u{A5}".into());
            }
            for (ti, text) in texts.iter().enumerate() {
                for repl in [true, false] {
                    let top = if repl { 24 } else { 7 };
                    for c0 in 0..=top {
                        let utf16 = (ti + c0) % 2 == 0;
                        let units16: Vec<u16> = text.encode_utf16().collect();
                        // (a) one chunk, last
                        let mut p = EPlan { enc: e, utf16, repl, units16: units16.clone(), cuts: vec![], caps: vec![c0, 1000, 1000, 1000, 1000, 1000, 1000, 1000] };
                        p.cuts = vec![p.src_len()];
                        emit_any_cap(out, &p, &props);
                        // (b) the text in a non-last chunk with ample space (with replacement: one call), then an
                        // empty last chunk whose first capacity is the small one
                        if repl && (c0 < 14) {
                            let mut p = EPlan { enc: e, utf16: !utf16, repl, units16, cuts: vec![], caps: vec![1000, c0, 1000, 1000, 1000, 1000, 1000, 1000] };
                            p.cuts = vec![p.src_len(), p.src_len()];
                            emit_any_cap(out, &p, &props);
                        }
                    }
                }
            }
        }
        // search for a failing input after a proof obligation broke (check sets VERIF_SEARCH; oracles only, no
        // operation lines): every scalar value, 32 per history, so that a single changed entry of any encode
        // table or range has a concrete failing input
        if std::env::var("VERIF_SEARCH").is_ok() && matches!(prop, "C12" | "C03") && e.output_encoding() != encoding_rs::UTF_8 {
            let mut chunk: Vec<u16> = Vec::new();
            let mut n = 0usize;
            for c in 0..=0x10FFFFu32 {
                if let Some(ch) = char::from_u32(c) {
                    let mut b = [0u16; 2];
                    chunk.extend_from_slice(ch.encode_utf16(&mut b));
                    n += 1;
                    if n == 32 {
                        let mut p = EPlan { enc: e, utf16: (c / 256) % 2 == 0, repl: true, units16: std::mem::take(&mut chunk), cuts: vec![], caps: vec![4096] };
                        p.cuts = vec![p.src_len()];
                        emit_oracles(out, &p, &props);
                        n = 0;
                    }
                }
            }
            if !chunk.is_empty() {
                let mut p = EPlan { enc: e, utf16: true, repl: true, units16: chunk, cuts: vec![], caps: vec![4096] };
                p.cuts = vec![p.src_len()];
                emit_oracles(out, &p, &props);
            }
        }
        // boundary pass: every constant of the source (and its neighbours) between two ASCII characters,
        // one complete call, alternating source form; with replacement where the property is about it
        let repl = matches!(prop, "C03" | "C09" | "C12" | "C18" | "C06" | "C08");
        for (i, &c) in source_constants().iter().enumerate() {
            if !thorough && e.output_encoding() == encoding_rs::UTF_8 && i % 8 != 0 {
                continue;
            }
            if let Some(ch) = char::from_u32(c) {
                let text: String = ['a', ch, 'b'].iter().collect();
                let p = EPlan { enc: e, utf16: i % 2 == 0, repl: repl || i % 3 == 0, units16: text.encode_utf16().collect(), cuts: vec![text.encode_utf16().count().max(if i % 2 == 0 { 0 } else { text.len() })], caps: vec![64] };
                let mut p = p;
                p.cuts = vec![p.src_len()];
                emit(out, &p, &props);
            }
        }
    }
    true
}

pub fn parse_plan(toks: &[&str]) -> Option<EPlan> {
    if toks.len() != 7 {
        return None;
    }
    Some(EPlan {
        enc: enc_by_ident(toks[1])?,
        utf16: toks[2] == "u16",
        repl: toks[3] == "repl",
        units16: unhex16(toks[4]),
        cuts: parse_nats(toks[5]),
        caps: parse_nats(toks[6]),
    })
}

/// `enc …` lines carry the call records; rebuild the plan from them.
pub fn plan_from_enc(toks: &[&str]) -> Option<EPlan> {
    if toks.len() != 6 {
        return None;
    }
    let utf16 = toks[2] == "u16";
    let units16: Vec<u16> = if utf16 { unhex16(toks[4]) } else { String::from_utf8_lossy(&unhex(toks[4])).encode_utf16().collect() };
    let mut p = EPlan { enc: enc_by_ident(toks[1])?, utf16, repl: toks[3] == "repl", units16, cuts: vec![], caps: vec![] };
    let mut consumed = 0usize;
    if toks[5] != "." {
        for c in toks[5].split(';') {
            let mut n = 0usize;
            let mut cap = 0usize;
            let mut rd = 0usize;
            let mut inputempty = false;
            for kv in c.split(',') {
                let mut it = kv.split('=');
                let k = it.next()?;
                let v = it.next()?;
                match k {
                    "n" => n = v.parse().ok()?,
                    "c" => cap = v.parse().ok()?,
                    "rd" => rd = v.parse().ok()?,
                    "r" => inputempty = v == "I",
                    _ => {}
                }
            }
            p.caps.push(cap);
            if inputempty {
                p.cuts.push(consumed + n);
            }
            consumed += rd;
        }
    }
    let len = p.src_len();
    if p.cuts.last() != Some(&len) {
        p.cuts.push(len);
    }
    if p.caps.is_empty() {
        p.caps.push(64);
    }
    Some(p)
}

pub fn replay(toks: &[&str], out: &mut Out) -> bool {
    let all = ["C03", "C04", "C06", "C07", "C08", "C09", "C12", "C18"];
    match toks[0] {
        "enc" => {
            if let Some(p) = plan_from_enc(toks) {
                emit(out, &p, &all);
            }
            true
        }
        "encplan" => {
            if let Some(p) = parse_plan(toks) {
                emit(out, &p, &all);
            }
            true
        }
        _ => false,
    }
}
