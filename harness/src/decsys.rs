//! Systematic (enumerative, class-based) decoder histories added after the model-mutation audit of the
//! decoder-side hand models (notes/NOTES-mmA.md): inputs on which a slightly wrong model and the real code
//! differ, which the random generators of `dec.rs` did not produce.
//!
//!  * boundary scalars (U+007F/80, U+07FF/800, U+FFFF/10000, …) with destinations that end exactly after /
//!    one unit before the end of a character (the unit counts of the model's `unitsOf`);
//!  * complete lead × trail tables of every legacy multi-byte encoding (one history per lead byte), the
//!    three-byte JIS X 0212 plane of EUC-JP, the range boundaries of the four-byte gb18030 area (found by
//!    probing the real decoder);
//!  * ISO-2022-JP: every byte in every decoder state; every sequence of three tokens of an escape / lead /
//!    error alphabet;
//!  * token sequences (valid characters, truncated characters, invalid bytes) of every multi-byte encoding,
//!    each whole-stream-in-one-call with `last = true`, raw with a large destination and with replacement in
//!    every small capacity (the inner calls of the replacement loop see the remaining 0..3 units: the only
//!    place where the space checks of the delayed-output flush and of the end-of-stream block can fail).
use crate::dec::{emit, min_cap, Bom, Plan, QUERY_CAP};
use crate::util::*;
use encoding_rs::*;

fn is16(e: &'static Encoding) -> bool {
    e == UTF_16LE || e == UTF_16BE
}

fn enc_scalar(e: &'static Encoding, c: u32) -> Vec<u8> {
    let ch = char::from_u32(c).unwrap();
    if is16(e) {
        let mut b = [0u16; 2];
        ch.encode_utf16(&mut b).iter().flat_map(|u| if e == UTF_16LE { u.to_le_bytes() } else { u.to_be_bytes() }).collect()
    } else {
        let mut b = [0u8; 4];
        let (bytes, _, _) = e.encode(ch.encode_utf8(&mut b));
        bytes.into_owned()
    }
}

fn units(c: u32, sink16: bool) -> usize {
    let ch = char::from_u32(c).unwrap();
    if sink16 {
        ch.len_utf16()
    } else {
        ch.len_utf8()
    }
}

fn plan(e: &'static Encoding, sink16: bool, repl: bool, stream: Vec<u8>, cuts: Vec<usize>, caps: Vec<usize>) -> Plan {
    Plan { enc: e, bom: Bom::Off, sink16, repl, stream, cuts, caps, skip: false }
}

/// boundary scalars of the unit counts, in the encodings that have them all
fn boundary_scalars(out: &mut Out, e: &'static Encoding, props: &[&str], c07: bool) {
    if !(e == UTF_8 || is16(e) || e == GB18030) {
        return;
    }
    const B: &[u32] = &[0x7F, 0x80, 0x7FF, 0x800, 0xD7FF, 0xE000, 0xFFFF, 0x10000, 0x10FFFF];
    let mut idx = 0usize;
    for &x in B {
        for &y in B {
            let mut stream: Vec<u8> = Vec::new();
            for c in [0x61u32, 0x62, 0x63, x, y, 0x61] {
                stream.extend(enc_scalar(e, c));
            }
            for sink16 in [false, true] {
                let ux = 3 + units(x, sink16);
                let u = ux + units(y, sink16);
                // the destination of the first call ends: one unit before the end of y, exactly after y,
                // exactly after x, one unit after y
                for c0 in [u - 1, u, ux, u + 1] {
                    idx += 1;
                    let repl = idx % 2 == 0;
                    let caps = if c07 { vec![QUERY_CAP] } else { vec![c0.max(min_cap(sink16)), 1000, 1000, 1000, 1000, 1000] };
                    emit(out, &plan(e, sink16, repl, stream.clone(), vec![stream.len()], caps), props);
                    if c07 {
                        break;
                    }
                }
            }
        }
    }
}

/// one history per lead byte: the lead followed by every trail candidate
fn pair_tables(out: &mut Out, e: &'static Encoding, props: &[&str], c07: bool) {
    let mut streams: Vec<Vec<u8>> = Vec::new();
    let two = |prefix: &[u8], leads: std::ops::RangeInclusive<u8>, trails: &[u8], streams: &mut Vec<Vec<u8>>| {
        for l in leads {
            let mut s: Vec<u8> = prefix.to_vec();
            for &t in trails {
                s.push(l);
                s.push(t);
            }
            streams.push(s);
        }
    };
    if e == BIG5 || e == EUC_KR || e == SHIFT_JIS || e == GBK || e == GB18030 {
        // trails 0x40..=0xFF (gb18030: the digits 0x30..0x39 start four-byte sequences, see below) and one ASCII non-trail
        let mut trails: Vec<u8> = (0x40..=0xFFu8).collect();
        trails.push(0x21);
        two(&[], 0x80..=0xFF, &trails, &mut streams);
    } else if e == EUC_JP {
        let mut trails: Vec<u8> = (0xA0..=0xFFu8).collect();
        trails.extend_from_slice(&[0x7F, 0x41, 0x8E, 0x8F, 0x80]);
        two(&[], 0x8E..=0x8E, &trails, &mut streams);
        two(&[], 0xA0..=0xFF, &trails, &mut streams);
        // JIS X 0212: 8F lead trail
        for l in 0xA0..=0xFFu8 {
            let mut s: Vec<u8> = Vec::new();
            for &t in &trails {
                s.extend_from_slice(&[0x8F, l, t]);
            }
            streams.push(s);
        }
    } else if e == ISO_2022_JP {
        let trails: Vec<u8> = (0x20..=0x7Fu8).collect();
        two(&[0x1B, 0x24, 0x42], 0x21..=0x7E, &trails, &mut streams);
    } else {
        return;
    }
    for (i, s) in streams.into_iter().enumerate() {
        let repl = i % 2 == 0;
        let sink16 = (i / 2) % 2 == 0;
        let caps = if c07 { vec![QUERY_CAP] } else { vec![4 * s.len() + 16] };
        let n = s.len();
        emit(out, &plan(e, sink16, repl, s, vec![n], caps), props);
    }
}

fn gb_four(p: u32) -> [u8; 4] {
    let b4 = (p % 10) as u8 + 0x30;
    let p = p / 10;
    let b3 = (p % 126) as u8 + 0x81;
    let p = p / 126;
    let b2 = (p % 10) as u8 + 0x30;
    let b1 = (p / 10) as u8 + 0x81;
    [b1, b2, b3, b4]
}

/// what the real decoder says about one four-byte sequence: Some(scalar) or None (error)
fn gb_probe(e: &'static Encoding, p: u32) -> Option<u32> {
    let b = gb_four(p);
    let mut d = e.new_decoder_without_bom_handling();
    let mut dst = [0u16; 8];
    let (r, _, w) = d.decode_to_utf16_without_replacement(&b, &mut dst, true);
    if r != DecoderResult::InputEmpty {
        return None;
    }
    char::decode_utf16(dst[..w].iter().copied()).next().and_then(|x| x.ok()).map(|c| c as u32)
}

/// the four-byte area of gb18030 / GBK: every pointer at which the mapping is not "previous + 1"
/// (range starts, the special pointer, the ends of the BMP and astral areas), with both neighbours
fn gb_four_byte(out: &mut Out, e: &'static Encoding, props: &[&str], c07: bool) {
    if !(e == GB18030 || e == GBK) {
        return;
    }
    let mut ptrs: Vec<u32> = vec![0, 1];
    let scan = |lo: u32, hi: u32, ptrs: &mut Vec<u32>| {
        let mut prev = gb_probe(e, lo);
        for p in lo + 1..=hi {
            let cur = gb_probe(e, p);
            let cont = match (prev, cur) {
                (Some(a), Some(b)) => b == a + 1,
                (None, None) => true,
                _ => false,
            };
            if !cont {
                ptrs.extend_from_slice(&[p - 1, p]);
            }
            prev = cur;
        }
    };
    scan(0, 39430, &mut ptrs);
    scan(188990, 189010, &mut ptrs);
    scan(1237560, 1237590, &mut ptrs);
    // the largest pointers four bytes can express
    ptrs.extend_from_slice(&[1237575, 1237576, 126 * 10 * 126 * 10 - 2, 126 * 10 * 126 * 10 - 1]);
    ptrs.sort();
    ptrs.dedup();
    for (i, chunk) in ptrs.chunks(48).enumerate() {
        let mut s: Vec<u8> = Vec::new();
        for &p in chunk {
            s.extend_from_slice(&gb_four(p));
        }
        for sink16 in [false, true] {
            let repl = (i + sink16 as usize) % 2 == 0;
            let caps = if c07 { vec![QUERY_CAP] } else { vec![4 * s.len() + 16] };
            emit(out, &plan(e, sink16, repl, s.clone(), vec![s.len()], caps), props);
        }
    }
}

/// ISO-2022-JP: every byte in every decoder state
fn iso_state_bytes(out: &mut Out, e: &'static Encoding, props: &[&str], c07: bool) {
    if e != ISO_2022_JP {
        return;
    }
    let prefixes: [&[u8]; 10] = [
        b"",
        b"\x1B(J",
        b"\x1B(I",
        b"\x1B$B",
        b"\x1B$B\x21",
        b"\x1B$B\x7E",
        b"\x1B",
        b"\x1B$",
        b"\x1B(",
        b"\x1B(Ja\x1B(",
    ];
    for (pi, pre) in prefixes.iter().enumerate() {
        for b in 0..=255u8 {
            let mut s = pre.to_vec();
            s.push(b);
            s.push(0x41);
            let sink16 = (b as usize + pi) % 2 == 0;
            let caps = if c07 { vec![QUERY_CAP] } else { vec![64] };
            let n = s.len();
            emit(out, &plan(e, sink16, false, s, vec![n], caps), props);
        }
    }
}

/// the token alphabet of an encoding: valid characters of every length, truncated characters, bytes that
/// are errors on their own
fn tokens(e: &'static Encoding) -> Vec<Vec<u8>> {
    let t = |xs: &[&[u8]]| xs.iter().map(|x| x.to_vec()).collect::<Vec<_>>();
    if is16(e) {
        let be = e == UTF_16BE;
        let u = |x: u16| if be { x.to_be_bytes().to_vec() } else { x.to_le_bytes().to_vec() };
        vec![u(0x0041), u(0xD800), u(0xDC00), u(0x3042), u(0xDBFF), vec![0xD8], vec![0x00]]
    } else if e == UTF_8 {
        t(&[b"a", b"\xC3\xA9", b"\xE3\x81\x82", b"\xF0\x9F\x92\xA9", b"\xE3\x81", b"\xF0\x9F", b"\xF0\x9F\x92", b"\x80", b"\xFF", b"\xED\xA0", b"\xC2"])
    } else if e == GB18030 || e == GBK {
        t(&[b"a", b"0", b"\x81\x40", b"\x81\x30\x81\x30", b"\x90\x30\x81\x30", b"\x81", b"\x81\x30", b"\x81\x30\x81", b"\x80", b"\xFF", b"\x84\x31\xA4\x3A"])
    } else if e == BIG5 {
        t(&[b"a", b"\xA4\x40", b"\x88\x62", b"\x87\x40", b"\xA4", b"\x80", b"\xFF", b"\xA4\xFF"])
    } else if e == EUC_KR {
        t(&[b"a", b"\xB0\xA1", b"\x81\x41", b"\xB0", b"\x80", b"\xFF", b"\xB0\xFF"])
    } else if e == SHIFT_JIS {
        t(&[b"a", b"\x82\xA0", b"\xB1", b"\x82", b"\xE0", b"\x80", b"\xA0", b"\xFF", b"\x82\xFF"])
    } else if e == EUC_JP {
        t(&[b"a", b"\xA4\xA2", b"\x8E\xB1", b"\x8F\xB0\xA1", b"\xA4", b"\x8E", b"\x8F", b"\x8F\xB0", b"\x80", b"\xFF", b"\x8F\xA2\xAF"])
    } else if e == ISO_2022_JP {
        t(&[b"a", b"\x1B(B", b"\x1B(J", b"\x1B(I", b"\x1B$B", b"\x1B", b"\x1B(", b"\x1B$", b"\x21", b"\x21\x21", b"\x5C", b"\x0E", b"\x80"])
    } else if e == REPLACEMENT {
        t(&[b"a", b"\x80"])
    } else {
        Vec::new()
    }
}

/// every sequence of up to three tokens, the whole stream in one call with `last` (two-token sequences also
/// one token per call): raw on both sinks with a
/// large destination (odd sequences: one byte per call instead, so that the state queries — `max_*`,
/// `latin1_byte_compatible_up_to` — are asked in every intermediate state), and with replacement in every
/// capacity from the documented minimum to minimum + 3
fn token_sequences(out: &mut Out, e: &'static Encoding, props: &[&str], c07: bool) {
    let toks = tokens(e);
    if toks.is_empty() {
        return;
    }
    // (stream, length of the first token if the sequence has exactly two)
    let mut seqs: Vec<(Vec<u8>, usize)> = Vec::new();
    for a in &toks {
        seqs.push((a.clone(), 0));
        for b in &toks {
            seqs.push(([a.as_slice(), b.as_slice()].concat(), a.len()));
            for c in &toks {
                seqs.push(([a.as_slice(), b.as_slice(), c.as_slice()].concat(), 0));
            }
        }
    }
    for (i, (s, first)) in seqs.into_iter().enumerate() {
        let n = s.len();
        let each: Vec<usize> = (1..=n).collect();
        if c07 {
            let cuts = if i % 2 == 0 { vec![n] } else { each.clone() };
            emit(out, &plan(e, i % 4 < 2, i % 3 == 0, s.clone(), cuts, vec![QUERY_CAP]), props);
            continue;
        }
        for sink16 in [false, true] {
            let cuts = if (i + sink16 as usize) % 2 == 0 { vec![n] } else { each.clone() };
            emit(out, &plan(e, sink16, false, s.clone(), cuts, vec![64]), props);
            let m = min_cap(sink16);
            for cap in m..=m + 3 {
                emit(out, &plan(e, sink16, true, s.clone(), vec![n], vec![cap]), props);
                if first > 0 {
                    // two tokens, one call each: the second call starts in the state the first token left
                    // (the end-of-stream block of UTF-16 can only run out of space this way)
                    emit(out, &plan(e, sink16, true, s.clone(), vec![first, n], vec![cap]), props);
                }
            }
        }
    }
}

pub fn generate_for(out: &mut Out, e: &'static Encoding, props: &[&str], prop: &str) {
    let c07 = prop == "C07";
    boundary_scalars(out, e, props, c07);
    pair_tables(out, e, props, c07);
    gb_four_byte(out, e, props, c07);
    iso_state_bytes(out, e, props, c07);
    token_sequences(out, e, props, c07);
}
