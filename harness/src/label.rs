//! C13: Encoding::for_label / for_label_no_replacement.
use crate::util::*;
use encoding_rs::Encoding;
use std::collections::HashMap;

pub fn load_spec_labels() -> Vec<(Vec<u8>, String)> {
    let path = format!("{}/spec/labels.tsv", verif_dir());
    let text = std::fs::read_to_string(&path).expect("spec/labels.tsv");
    text.lines()
        .filter(|l| !l.is_empty())
        .map(|l| {
            let mut it = l.split('\t');
            let a = it.next().unwrap().as_bytes().to_vec();
            let b = it.next().unwrap().to_string();
            (a, b)
        })
        .collect()
}

fn is_ws(b: u8) -> bool {
    b == 0x09 || b == 0x0A || b == 0x0C || b == 0x0D || b == 0x20
}

/// The Standard's "get an encoding", written naively.
fn spec_get(map: &HashMap<Vec<u8>, String>, label: &[u8]) -> Option<String> {
    let mut s = 0;
    let mut e = label.len();
    while s < e && is_ws(label[s]) {
        s += 1;
    }
    while e > s && is_ws(label[e - 1]) {
        e -= 1;
    }
    let lower: Vec<u8> = label[s..e].iter().map(|b| b.to_ascii_lowercase()).collect();
    map.get(&lower).cloned()
}

fn show(e: Option<&'static Encoding>) -> String {
    match e {
        None => "-".to_string(),
        Some(e) => ident(e),
    }
}

pub fn one(out: &mut Out, map: &HashMap<Vec<u8>, String>, label: &[u8]) {
    let l = label.to_vec();
    let r = catch(move || (Encoding::for_label(&l), Encoding::for_label_no_replacement(&l)));
    out.oracle_evals += 1;
    match r {
        Err(msg) => {
            out.op(format!("label {}", hex(label)), format!("panic:{}", msg));
            out.fail("C13", &format!("label {}", hex(label)), format!("panicked: {}", msg));
        }
        Ok((a, b)) => {
            out.op(format!("label {}", hex(label)), format!("{} {}", show(a), show(b)));
            let want = spec_get(map, label);
            let got = a.map(|e| e.name().to_string());
            if want != got {
                out.fail("C13", &format!("label {}", hex(label)), format!("for_label: expected {:?} got {:?}", want, got));
            }
            let want_nr = match &want {
                Some(n) if n == "replacement" => None,
                other => other.clone(),
            };
            let got_nr = b.map(|e| e.name().to_string());
            if want_nr != got_nr {
                out.fail(
                    "C13",
                    &format!("label {}", hex(label)),
                    format!("for_label_no_replacement: expected {:?} got {:?}", want_nr, got_nr),
                );
            }
        }
    }
}

pub fn replay(toks: &[&str], out: &mut Out) -> bool {
    if toks[0] != "label" || toks.len() != 2 {
        return false;
    }
    let labels = load_spec_labels();
    let map = labels.iter().cloned().collect();
    one(out, &map, &unhex(toks[1]));
    true
}

pub fn generate(prop: &str, out: &mut Out, thorough: bool, seed: u64) -> bool {
    if prop != "C13" {
        return false;
    }
    let labels = load_spec_labels();
    let map: HashMap<Vec<u8>, String> = labels.iter().cloned().collect();
    let mut rng = Rng::new(seed ^ 0xC13);
    // bytes used for substitutions / insertions
    let interesting: Vec<u8> = if thorough {
        (0u16..256).map(|x| x as u8).collect()
    } else {
        let mut v: Vec<u8> = vec![
            0x00, 0x08, 0x09, 0x0A, 0x0B, 0x0C, 0x0D, 0x0E, 0x1F, 0x20, 0x21, 0x2C, 0x2D, 0x2E, 0x2F, 0x30, 0x39,
            0x3A, 0x3B, 0x40, 0x41, 0x5A, 0x5B, 0x5F, 0x60, 0x61, 0x7A, 0x7B, 0x7F, 0x80, 0xA0, 0xC9, 0xE9, 0xFF,
            b'q', b'Q', b'8', b'K',
        ];
        v.sort();
        v.dedup();
        v
    };
    // empty and whitespace-only
    one(out, &map, b"");
    for n in 1..4 {
        for &w in &[0x09u8, 0x0A, 0x0B, 0x0C, 0x0D, 0x20, 0x00, 0x85, 0xA0] {
            one(out, &map, &vec![w; n]);
        }
    }
    // every encoding name
    for (_, name) in &labels {
        one(out, &map, name.as_bytes());
    }
    for (label, _) in &labels {
        one(out, &map, label);
        // upper case, mixed case
        one(out, &map, &label.to_ascii_uppercase());
        let mixed: Vec<u8> =
            label.iter().map(|b| if rng.chance(1, 2) { b.to_ascii_uppercase() } else { *b }).collect();
        one(out, &map, &mixed);
        // non-ASCII "case" look-alikes: flip bit 5 on every byte position
        for i in 0..label.len() {
            let mut v = label.clone();
            v[i] ^= 0x20;
            one(out, &map, &v);
        }
        // paddings
        for &w in &[0x09u8, 0x0A, 0x0B, 0x0C, 0x0D, 0x20, 0x00, 0x1C, 0x85, 0xA0] {
            let mut v = vec![w];
            v.extend_from_slice(label);
            one(out, &map, &v);
            let mut v = label.clone();
            v.push(w);
            one(out, &map, &v);
            // each of the three scanner phases sees `w` on its own
            for (pre, post) in [
                (vec![w, 0x20], vec![]),
                (vec![0x20, w], vec![]),
                (vec![], vec![0x0A, w]),
                (vec![], vec![w, 0x0A]),
                (vec![], vec![0x20, w, 0x20]),
                (vec![0x09, w, 0x09], vec![0x0C, w]),
            ] {
                let mut v = pre.clone();
                v.extend_from_slice(label);
                v.extend_from_slice(&post);
                one(out, &map, &v);
            }
        }
        // deletions
        for i in 0..label.len() {
            let mut v = label.clone();
            v.remove(i);
            one(out, &map, &v);
        }
        // substitutions and insertions
        for i in 0..=label.len() {
            for &b in &interesting {
                if i < label.len() {
                    let mut v = label.clone();
                    v[i] = b;
                    one(out, &map, &v);
                }
                let mut v = label.clone();
                v.insert(i, b);
                one(out, &map, &v);
            }
        }
        // doubled, and label followed by whitespace and another label
        let mut v = label.clone();
        v.extend_from_slice(label);
        one(out, &map, &v);
        let mut v = label.clone();
        v.push(0x20);
        v.extend_from_slice(&labels[rng.below(labels.len())].0);
        one(out, &map, &v);
    }
    // lengths around LONGEST_LABEL_LENGTH over the label alphabet
    let alpha: Vec<u8> = b"abcdefghijklmnopqrstuvwxyzABCDEFGHIJKLMNOPQRSTUVWXYZ0123456789-_:.".to_vec();
    for len in 15..=26 {
        for _ in 0..(if thorough { 200 } else { 20 }) {
            let v: Vec<u8> = (0..len).map(|_| *rng.pick(&alpha)).collect();
            one(out, &map, &v);
            let mut w = vec![0x20u8; rng.below(3)];
            w.extend_from_slice(&v);
            w.extend(vec![0x09u8; rng.below(3)]);
            one(out, &map, &w);
        }
        // a real 19-byte label extended
        let mut v = b"cseucpkdfmtjapanese".to_vec();
        while v.len() < len {
            v.push(b'e');
        }
        one(out, &map, &v);
    }
    // seeded random strings over label alphabet + whitespace + junk, length <= 24
    let mut alpha2 = alpha.clone();
    alpha2.extend_from_slice(&[0x09, 0x0A, 0x0C, 0x0D, 0x20, 0x20, 0x00, 0x0B, 0x80, 0xFF]);
    let n = if thorough { 200_000 } else { 5_000 };
    for _ in 0..n {
        let len = rng.below(25);
        let v: Vec<u8> = (0..len).map(|_| *rng.pick(&alpha2)).collect();
        one(out, &map, &v);
    }
    // random mutations of real labels (2 edits)
    for _ in 0..n {
        let mut v = labels[rng.below(labels.len())].0.clone();
        for _ in 0..2 {
            match rng.below(3) {
                0 if !v.is_empty() => {
                    let i = rng.below(v.len());
                    v[i] = *rng.pick(&alpha2);
                }
                1 => {
                    let i = rng.below(v.len() + 1);
                    v.insert(i, *rng.pick(&alpha2));
                }
                _ if !v.is_empty() => {
                    let i = rng.below(v.len());
                    v.remove(i);
                }
                _ => {}
            }
        }
        one(out, &map, &v);
    }
    true
}
