//! C14: validators return the exact length of the longest valid prefix.
//!
//!   valid <fn> <force_scalar 0|1> <align> <hex>  => <index>    fn: utf8 ascii iso2022jp utf8latin1 strlatin1
//!   valid16 utf16 <align> <hex16>                => <index>
//!
//! Every generated buffer is run in-process at all 16 start alignments (slices
//! of one 64-byte-aligned arena) and, for `utf8`, with the SIMD fast path
//! enabled and disabled (`encoding_rs::verif_force_scalar_utf8`). Each of these
//! calls is checked against the oracle (std / naive scans below). The model
//! ignores alignment and path, so only ONE variant per buffer (rotating through
//! the 32 combinations) is written as an operation line for the model driver,
//! plus every variant whose result differs from that representative — no
//! implementation result goes uncompared.
use crate::util::*;
use encoding_rs::mem;
use encoding_rs::Encoding;
use std::cell::RefCell;
use std::io::Write;

thread_local! {
    /// The call in flight (operation-line prefix, 8-bit data, 16-bit data) for the panic hook:
    /// a non-unwinding panic (e.g. a failed unsafe-precondition check inside `get_unchecked`
    /// in this debug-assertions build) aborts the process and cannot be caught by `catch`,
    /// so the hook prints the offending operation as an ORACLE-FAIL line before the abort.
    static CUR: RefCell<(String, Vec<u8>, Vec<u16>)> = RefCell::new((String::new(), Vec::new(), Vec::new()));
}

fn set_cur8(f: &str, force: bool, align: usize, data: &[u8]) {
    CUR.with(|c| {
        let mut c = c.borrow_mut();
        c.0.clear();
        c.0.push_str("valid ");
        c.0.push_str(f);
        c.0.push_str(if force { " 1 " } else { " 0 " });
        c.0.push_str(&align.to_string());
        c.1.clear();
        c.1.extend_from_slice(data);
    });
}

fn set_cur16(align: usize, data: &[u16]) {
    CUR.with(|c| {
        let mut c = c.borrow_mut();
        c.0.clear();
        c.0.push_str("valid16 utf16 ");
        c.0.push_str(&align.to_string());
        c.2.clear();
        c.2.extend_from_slice(data);
    });
}

type Hook = Box<dyn Fn(&std::panic::PanicHookInfo<'_>) + Sync + Send + 'static>;

/// installs the hook described at `CUR`; returns the previous hook
fn install_hook() -> Hook {
    let prev = std::panic::take_hook();
    std::panic::set_hook(Box::new(|info| {
        // `PanicHookInfo::can_unwind` is unstable; recognise the non-unwinding kinds by message
        let msg = info.to_string();
        if msg.contains("unsafe precondition") || msg.contains("cannot unwind") {
            CUR.with(|c| {
                if let Ok(c) = c.try_borrow() {
                    let arg = if c.0.starts_with("valid16") { hex16(&c.2) } else { hex(&c.1) };
                    println!("ORACLE-FAIL C14 {} {} :: non-unwinding panic, process aborts: {}", c.0, arg, msg.replace('\n', " "));
                    let _ = std::io::stdout().flush();
                }
            });
        }
    }));
    prev
}

const FNS8: &[&str] = &["utf8", "ascii", "iso2022jp", "utf8latin1", "strlatin1"];

// ---------------------------------------------------------------------------
// oracles (independent of the crate)

fn oracle_utf8(b: &[u8]) -> usize {
    match std::str::from_utf8(b) {
        Ok(_) => b.len(),
        Err(e) => e.valid_up_to(),
    }
}

fn oracle_ascii(b: &[u8]) -> usize {
    let mut i = 0;
    while i < b.len() && b[i] <= 0x7F {
        i += 1;
    }
    i
}

fn oracle_iso2022jp(b: &[u8]) -> usize {
    let mut i = 0;
    while i < b.len() {
        let c = b[i];
        if c > 0x7F || c == 0x0E || c == 0x0F || c == 0x1B {
            break;
        }
        i += 1;
    }
    i
}

/// first byte that starts an invalid or a non-Latin1 sequence: decode the
/// std-valid prefix character by character.
fn oracle_utf8_latin1(b: &[u8]) -> usize {
    let v = oracle_utf8(b);
    let s = std::str::from_utf8(&b[..v]).unwrap();
    for (i, c) in s.char_indices() {
        if (c as u32) > 0xFF {
            return i;
        }
    }
    v
}

fn oracle_str_latin1(s: &str) -> usize {
    for (i, c) in s.char_indices() {
        if (c as u32) > 0xFF {
            return i;
        }
    }
    s.len()
}

fn oracle_utf16(u: &[u16]) -> usize {
    let mut i = 0;
    for r in std::char::decode_utf16(u.iter().cloned()) {
        match r {
            Ok(c) => i += c.len_utf16(),
            Err(_) => return i,
        }
    }
    i
}

// ---------------------------------------------------------------------------
// aligned arenas

struct Arena8 {
    buf: Vec<u8>,
    base: usize,
}

impl Arena8 {
    fn new() -> Arena8 {
        let buf = vec![0xFFu8; 4096];
        let addr = buf.as_ptr() as usize;
        let base = (64 - addr % 64) % 64;
        Arena8 { buf, base }
    }
    /// a slice holding `data` whose start address is `align` modulo 64;
    /// the byte before and after are 0xFF / 0x80 (non-ASCII guard values).
    fn place(&mut self, data: &[u8], align: usize) -> &[u8] {
        let start = self.base + 64 + align;
        self.buf[start - 1] = 0xFF;
        self.buf[start..start + data.len()].copy_from_slice(data);
        self.buf[start + data.len()] = 0x80;
        &self.buf[start..start + data.len()]
    }
}

struct Arena16 {
    buf: Vec<u16>,
    base: usize,
}

impl Arena16 {
    fn new() -> Arena16 {
        let buf = vec![0xDC00u16; 4096];
        let addr = buf.as_ptr() as usize;
        let base = ((64 - addr % 64) % 64) / 2;
        Arena16 { buf, base }
    }
    /// start address is `2 * align` modulo 64; guards: a high surrogate before (would wrongly
    /// pair with a leading low surrogate) and a low surrogate after (would wrongly pair with a
    /// trailing high surrogate) if the implementation ever looked outside the slice.
    fn place(&mut self, data: &[u16], align: usize) -> &[u16] {
        let start = self.base + 32 + align;
        self.buf[start - 1] = 0xD800;
        self.buf[start..start + data.len()].copy_from_slice(data);
        self.buf[start + data.len()] = 0xDC00;
        &self.buf[start..start + data.len()]
    }
}

// ---------------------------------------------------------------------------
// single calls

fn call8(f: &str, force: bool, s: &[u8]) -> Result<usize, String> {
    match f {
        "utf8" => {
            encoding_rs::verif_force_scalar_utf8(force);
            let r = catch(|| Encoding::utf8_valid_up_to(s));
            encoding_rs::verif_force_scalar_utf8(false);
            r
        }
        "ascii" => catch(|| Encoding::ascii_valid_up_to(s)),
        "iso2022jp" => catch(|| Encoding::iso_2022_jp_ascii_valid_up_to(s)),
        "utf8latin1" => catch(|| mem::utf8_latin1_up_to(s)),
        "strlatin1" => {
            // only valid UTF-8 is a legal argument
            let st = std::str::from_utf8(s).expect("strlatin1 needs valid UTF-8");
            catch(|| mem::str_latin1_up_to(st))
        }
        _ => panic!("unknown fn {}", f),
    }
}

fn oracle8(f: &str, s: &[u8]) -> usize {
    match f {
        "utf8" => oracle_utf8(s),
        "ascii" => oracle_ascii(s),
        "iso2022jp" => oracle_iso2022jp(s),
        "utf8latin1" => oracle_utf8_latin1(s),
        "strlatin1" => oracle_str_latin1(std::str::from_utf8(s).unwrap()),
        _ => panic!("unknown fn {}", f),
    }
}

/// operation line (left-hand side) of one 8-bit call
fn lhs8(f: &str, force: bool, align: usize, data: &[u8]) -> String {
    const HEX: &[u8; 16] = b"0123456789abcdef";
    let mut s = String::with_capacity(24 + 2 * data.len());
    s.push_str("valid ");
    s.push_str(f);
    s.push_str(if force { " 1 " } else { " 0 " });
    s.push_str(&align.to_string());
    s.push(' ');
    if data.is_empty() {
        s.push('.');
    }
    for b in data {
        s.push(HEX[(b >> 4) as usize] as char);
        s.push(HEX[(b & 15) as usize] as char);
    }
    s
}

fn lhs16(align: usize, data: &[u16]) -> String {
    const HEX: &[u8; 16] = b"0123456789abcdef";
    let mut s = String::with_capacity(24 + 4 * data.len());
    s.push_str("valid16 utf16 ");
    s.push_str(&align.to_string());
    s.push(' ');
    if data.is_empty() {
        s.push('.');
    }
    for u in data {
        for sh in [12u32, 8, 4, 0] {
            s.push(HEX[((u >> sh) & 15) as usize] as char);
        }
    }
    s
}

fn show(r: &Result<usize, String>) -> String {
    match r {
        Ok(i) => i.to_string(),
        Err(m) => format!("panic:{}", m),
    }
}

struct Ctx {
    a8: Arena8,
    a16: Arena16,
    rot: usize,
}

impl Ctx {
    fn new() -> Ctx {
        Ctx { a8: Arena8::new(), a16: Arena16::new(), rot: 0 }
    }

    /// one (fn, force, align, data) call: oracle check + optional op line
    fn one8(&mut self, out: &mut Out, f: &str, force: bool, align: usize, data: &[u8], want: usize, emit: bool) -> Result<usize, String> {
        set_cur8(f, force, align, data);
        let s = self.a8.place(data, align);
        let r = call8(f, force, s);
        out.oracle_evals += 1;
        if r != Ok(want) {
            out.fail("C14", &lhs8(f, force, align, data), format!("{}: expected {} got {}", f, want, show(&r)));
        }
        if emit {
            out.op(lhs8(f, force, align, data), show(&r));
        }
        r
    }

    /// all alignments (x both paths for utf8) of one buffer
    fn case8(&mut self, out: &mut Out, f: &str, data: &[u8]) {
        if f == "strlatin1" && std::str::from_utf8(data).is_err() {
            return;
        }
        let want = oracle8(f, data);
        let nforce = if f == "utf8" { 2 } else { 1 };
        self.rot = self.rot.wrapping_add(1);
        let rep_align = self.rot % 16;
        let rep_force = (self.rot / 16) % nforce == 1;
        let rep = self.one8(out, f, rep_force, rep_align, data, want, true);
        for fi in 0..nforce {
            for align in 0..16 {
                let force = fi == 1;
                if force == rep_force && align == rep_align {
                    continue;
                }
                let r = self.one8(out, f, force, align, data, want, false);
                if r != rep {
                    out.op(lhs8(f, force, align, data), show(&r));
                }
            }
        }
    }

    fn one16(&mut self, out: &mut Out, align: usize, data: &[u16], want: usize, emit: bool) -> Result<usize, String> {
        set_cur16(align, data);
        let s = self.a16.place(data, align);
        let r = catch(|| mem::utf16_valid_up_to(s));
        out.oracle_evals += 1;
        if r != Ok(want) {
            out.fail("C14", &lhs16(align, data), format!("utf16: expected {} got {}", want, show(&r)));
        }
        if emit {
            out.op(lhs16(align, data), show(&r));
        }
        r
    }

    fn case16(&mut self, out: &mut Out, data: &[u16]) {
        let want = oracle_utf16(data);
        self.rot = self.rot.wrapping_add(1);
        let rep_align = self.rot % 16;
        let rep = self.one16(out, rep_align, data, want, true);
        for align in 0..16 {
            if align == rep_align {
                continue;
            }
            let r = self.one16(out, align, data, want, false);
            if r != rep {
                out.op(lhs16(align, data), show(&r));
            }
        }
    }
}

pub fn replay(toks: &[&str], out: &mut Out) -> bool {
    if toks[0] != "valid" && toks[0] != "valid16" {
        return false;
    }
    let prev = install_hook();
    let r = replay_inner(toks, out);
    std::panic::set_hook(prev);
    r
}

fn replay_inner(toks: &[&str], out: &mut Out) -> bool {
    let mut ctx = Ctx::new();
    if toks[0] == "valid" && toks.len() == 5 && FNS8.contains(&toks[1]) {
        let data = unhex(toks[4]);
        let force = toks[2] == "1";
        let align: usize = toks[3].parse().unwrap_or(0) % 64;
        if toks[1] == "strlatin1" && std::str::from_utf8(&data).is_err() {
            eprintln!("strlatin1: argument is not valid UTF-8, not a legal call");
            return true;
        }
        let want = oracle8(toks[1], &data);
        let _ = ctx.one8(out, toks[1], force, align, &data, want, true);
        return true;
    }
    if toks[0] == "valid16" && toks.len() == 4 && toks[1] == "utf16" {
        let data = unhex16(toks[3]);
        let align: usize = toks[2].parse().unwrap_or(0) % 32;
        let want = oracle_utf16(&data);
        let _ = ctx.one16(out, align, &data, want, true);
        return true;
    }
    false
}

// ---------------------------------------------------------------------------
// generators

/// valid characters used as filler (boundaries of every row of Table 3-7)
const CHARS: &[&[u8]] = &[
    b"a",
    b" ",
    b"\x7f",
    b"\x00",
    &[0xC2, 0x80],
    &[0xC3, 0xA9],
    &[0xC3, 0xBF],
    &[0xC4, 0x80],
    &[0xDF, 0xBF],
    &[0xE0, 0xA0, 0x80],
    &[0xE0, 0xBF, 0xBF],
    &[0xE1, 0x80, 0x80],
    &[0xE2, 0x82, 0xAC],
    &[0xEC, 0xBF, 0xBF],
    &[0xED, 0x80, 0x80],
    &[0xED, 0x9F, 0xBF],
    &[0xEE, 0x80, 0x80],
    &[0xEF, 0xBF, 0xBF],
    &[0xF0, 0x90, 0x80, 0x80],
    &[0xF0, 0x9F, 0x98, 0x80],
    &[0xF1, 0x80, 0x80, 0x80],
    &[0xF3, 0xBF, 0xBF, 0xBF],
    &[0xF4, 0x80, 0x80, 0x80],
    &[0xF4, 0x8F, 0xBF, 0xBF],
];

/// defects: every invalid lead / continuation pattern class
const DEFECTS: &[&[u8]] = &[
    // lone continuation bytes
    &[0x80],
    &[0xBF],
    &[0x9F],
    &[0xA0],
    // C0/C1 (overlong two-byte), F5..FF leads
    &[0xC0, 0x80],
    &[0xC1, 0xBF],
    &[0xF5, 0x80, 0x80, 0x80],
    &[0xF8, 0x88, 0x80, 0x80, 0x80],
    &[0xFE],
    &[0xFF],
    // overlong three / four byte
    &[0xE0, 0x80, 0x80],
    &[0xE0, 0x9F, 0xBF],
    &[0xF0, 0x80, 0x80, 0x80],
    &[0xF0, 0x8F, 0xBF, 0xBF],
    // surrogates
    &[0xED, 0xA0, 0x80],
    &[0xED, 0xBF, 0xBF],
    // above U+10FFFF
    &[0xF4, 0x90, 0x80, 0x80],
    &[0xF4, 0xBF, 0xBF, 0xBF],
    // missing continuation (next byte ASCII / lead / just above or below the range)
    &[0xC3, 0x41],
    &[0xC2, 0x7F],
    &[0xDF, 0xC0],
    &[0xC3, 0xC3, 0xA9],
    &[0xE2, 0x41, 0x41],
    &[0xE2, 0x82, 0x41],
    &[0xE1, 0x7F, 0x80],
    &[0xEC, 0xC0, 0x80],
    &[0xE2, 0x82, 0xC0],
    &[0xE2, 0x82, 0x7F],
    &[0xEF, 0xBF, 0xFF],
    &[0xF0, 0x41, 0x41, 0x41],
    &[0xF0, 0x9F, 0x41, 0x41],
    &[0xF0, 0x9F, 0x98, 0x41],
    &[0xF1, 0x7F, 0x80, 0x80],
    &[0xF3, 0xC0, 0x80, 0x80],
    &[0xF1, 0x80, 0xC0, 0x80],
    &[0xF1, 0x80, 0x80, 0xC0],
    &[0xF1, 0x80, 0x80, 0x7F],
    &[0xF4, 0x7F, 0x80, 0x80],
    // truncated sequences (also produced at the end of the buffer by clipping)
    &[0xC3],
    &[0xE2],
    &[0xE2, 0x82],
    &[0xF0],
    &[0xF0, 0x9F],
    &[0xF0, 0x9F, 0x98],
];

/// exactly `n` bytes of valid UTF-8; `kind` 0: ASCII only, 1: mixed, 2: dense multi-byte, 3: three-byte runs
fn fill(rng: &mut Rng, n: usize, kind: usize, v: &mut Vec<u8>) {
    let end = v.len() + n;
    while v.len() < end {
        let room = end - v.len();
        let c: &[u8] = match kind {
            0 => b"a",
            1 => {
                if rng.chance(3, 5) {
                    CHARS[rng.below(4)]
                } else {
                    CHARS[rng.below(CHARS.len())]
                }
            }
            2 => CHARS[4 + rng.below(CHARS.len() - 4)],
            _ => CHARS[9 + rng.below(9)],
        };
        if c.len() <= room {
            v.extend_from_slice(c);
        } else {
            v.push(b"az09 "[rng.below(5)]);
        }
    }
}

/// valid filler up to `p`, defect `d` at `p`, valid filler after; clipped to `len`
fn with_defects(rng: &mut Rng, len: usize, kind: usize, defects: &[(usize, &[u8])]) -> Vec<u8> {
    let mut v = Vec::with_capacity(len + 8);
    for (p, d) in defects {
        if *p > v.len() {
            let n = *p - v.len();
            fill(rng, n, kind, &mut v);
        }
        v.extend_from_slice(d);
    }
    if v.len() < len {
        let n = len - v.len();
        fill(rng, n, kind, &mut v);
    }
    v.truncate(len);
    v
}

fn positions(len: usize, thorough: bool, rng: &mut Rng) -> Vec<usize> {
    if thorough || len <= 12 {
        return (0..=len).collect();
    }
    // quick: both ends, every stride boundary neighbourhood, the 64-byte threshold, a few random
    let mut v: Vec<usize> = vec![0, 1, 2, 3, 4, 5];
    for k in 1..=4 {
        if len >= k {
            v.push(len - k);
        }
    }
    v.push(len);
    let mut s = 16;
    while s <= len {
        v.extend_from_slice(&[s - 1, s, s + 1]);
        s += 16;
    }
    for _ in 0..3 {
        v.push(rng.below(len + 1));
    }
    v.retain(|p| *p <= len);
    v.sort();
    v.dedup();
    v
}

fn gen_utf8(ctx: &mut Ctx, out: &mut Out, thorough: bool, rng: &mut Rng) {
    const GAPS: &[usize] = &[0, 1, 2, 3, 4, 5, 11, 12, 13, 14, 15, 16, 17, 29, 30, 31, 32, 33, 61, 62, 63, 64, 65];
    for len in 0..=160usize {
        // valid buffers of every fill kind
        for kind in 0..4 {
            let v = with_defects(rng, len, kind, &[]);
            ctx.case8(out, "utf8", &v);
        }
        let pos = positions(len, thorough, rng);
        // one defect
        for &p in &pos {
            for (di, d) in DEFECTS.iter().enumerate() {
                let kinds: Vec<usize> = if thorough { vec![0, 1, 2, 3] } else { vec![(len + p + di) % 4] };
                for kind in kinds {
                    let v = with_defects(rng, len, kind, &[(p, d)]);
                    ctx.case8(out, "utf8", &v);
                }
            }
        }
        // two defects
        for &p in &pos {
            let gaps: Vec<usize> = if thorough { GAPS.to_vec() } else { vec![*rng.pick(GAPS), *rng.pick(GAPS)] };
            for g in gaps {
                let n = if thorough { 6 } else { 2 };
                for _ in 0..n {
                    let d1 = DEFECTS[rng.below(DEFECTS.len())];
                    let d2 = DEFECTS[rng.below(DEFECTS.len())];
                    let p2 = p + d1.len() + g;
                    if p2 > len {
                        continue;
                    }
                    let kind = rng.below(4);
                    let v = with_defects(rng, len, kind, &[(p, d1), (p2, d2)]);
                    ctx.case8(out, "utf8", &v);
                }
            }
        }
    }
    // every sequence of up to four characters over the four length classes as the END of the buffer
    // (and, with a truncated last character, as an invalid end), after ASCII prefixes around the stride sizes:
    // the hand-over conditions between the validator's inner loops and its short-tail loop
    for v in crate::util::utf8_tail_shapes() {
        ctx.case8(out, "utf8", &v);
    }
    // every (lead, second) pair followed by valid / invalid third and fourth bytes, at
    // short and long total lengths (reaches 'inner, 'three and 'tail with each pair)
    let seconds: Vec<u8> =
        if thorough { (0u16..256).map(|x| x as u8).collect() } else { vec![0x00, 0x41, 0x7F, 0x80, 0x8F, 0x90, 0x9F, 0xA0, 0xBF, 0xC0, 0xC2, 0xE0, 0xF0, 0xFF] };
    for lead in 0x80u16..=0xFF {
        for &second in &seconds {
            for tails in [&[0x80u8, 0x80][..], &[0xBF, 0xBF], &[0x7F, 0x80], &[0x80, 0xC0], &[0xC0, 0x80], &[0x80], &[]] {
                let mut seq = vec![lead as u8, second];
                seq.extend_from_slice(tails);
                for (pre, post) in [(0usize, 0usize), (1, 0), (0, 1), (0, 4), (3, 5), (16, 4), (13, 0), (61, 3), (70, 20)] {
                    let mut v = vec![b'a'; pre];
                    v.extend_from_slice(&seq);
                    v.extend(std::iter::repeat(b'z').take(post));
                    ctx.case8(out, "utf8", &v);
                }
            }
        }
    }
    // seeded random: mostly valid with random byte corruption
    let n = if thorough { 150_000 } else { 10_000 };
    const JUNK: &[u8] = &[0x00, 0x41, 0x7F, 0x80, 0x8F, 0x90, 0x9F, 0xA0, 0xBF, 0xC0, 0xC1, 0xC2, 0xDF, 0xE0, 0xE1, 0xEC, 0xED, 0xEE, 0xEF, 0xF0, 0xF1, 0xF3, 0xF4, 0xF5, 0xF8, 0xFF];
    for _ in 0..n {
        let len = rng.below(200);
        let kind = rng.below(4);
        let mut v = with_defects(rng, len, kind, &[]);
        let k = rng.below(4);
        for _ in 0..k {
            if !v.is_empty() {
                let i = rng.below(v.len());
                v[i] = if rng.chance(1, 4) { rng.below(256) as u8 } else { *rng.pick(JUNK) };
            }
        }
        ctx.case8(out, "utf8", &v);
        if rng.chance(1, 4) {
            ctx.case8(out, "utf8latin1", &v);
        }
    }
}

fn gen_ascii(ctx: &mut Ctx, out: &mut Out, thorough: bool, rng: &mut Rng) {
    // ASCII / ISO-2022-JP-ASCII: every length x every position of one offender, two offenders
    let bad_ascii: &[u8] = &[0x80, 0xFF, 0xC3];
    let iso_vals: &[u8] = &[0x80, 0xFF, 0x0E, 0x0F, 0x1B, 0x0D, 0x10, 0x1A, 0x1C, 0x7F, 0x00];
    for len in 0..=160usize {
        let base: Vec<u8> = (0..len).map(|i| if i % 7 == 3 { 0x7F } else if i % 5 == 1 { 0x00 } else { b'a' + (i % 26) as u8 }).collect();
        ctx.case8(out, "ascii", &base);
        ctx.case8(out, "iso2022jp", &base);
        for p in 0..len {
            for &b in bad_ascii {
                if !thorough && b != 0x80 && p % 3 != len % 3 {
                    continue;
                }
                let mut v = base.clone();
                v[p] = b;
                ctx.case8(out, "ascii", &v);
                // second offender later on
                if p + 1 < len {
                    let q = p + 1 + rng.below(len - p - 1);
                    v[q] = 0x80 + rng.below(128) as u8;
                    ctx.case8(out, "ascii", &v);
                }
            }
            for &b in iso_vals {
                if !thorough && b != 0x1B && p % 4 != len % 4 {
                    continue;
                }
                let mut v = base.clone();
                v[p] = b;
                ctx.case8(out, "iso2022jp", &v);
                if p + 1 < len {
                    let q = p + 1 + rng.below(len - p - 1);
                    v[q] = *rng.pick(iso_vals);
                    ctx.case8(out, "iso2022jp", &v);
                }
            }
        }
    }
    let n = if thorough { 40_000 } else { 4_000 };
    for _ in 0..n {
        let len = rng.below(200);
        let v: Vec<u8> = (0..len)
            .map(|_| if rng.chance(1, 40) { *rng.pick(&[0x80u8, 0xFF, 0x1B, 0x0E, 0x0F, 0x9B, 0x8E]) } else { rng.below(128) as u8 })
            .collect();
        ctx.case8(out, "ascii", &v);
        ctx.case8(out, "iso2022jp", &v);
    }
}

/// exactly `n` bytes of ASCII + U+0080..U+00FF
fn fill_latin1(rng: &mut Rng, n: usize, dense: bool, v: &mut Vec<u8>) {
    const L1: &[&[u8]] = &[&[0xC2, 0x80], &[0xC2, 0xBF], &[0xC3, 0x80], &[0xC3, 0xBF], &[0xC3, 0xA9], &[0xC2, 0xA0]];
    let end = v.len() + n;
    while v.len() < end {
        let room = end - v.len();
        if room >= 2 && (dense || rng.chance(1, 4)) {
            v.extend_from_slice(L1[rng.below(L1.len())]);
        } else {
            v.push(b"az09 \x7f"[rng.below(6)]);
        }
    }
}

fn gen_latin1(ctx: &mut Ctx, out: &mut Out, thorough: bool, rng: &mut Rng) {
    // str_latin1_up_to: valid UTF-8 only: Latin1 prefix, one non-Latin1 character, any valid rest
    const NON_L1: &[&[u8]] = &[
        &[0xC4, 0x80],
        &[0xDF, 0xBF],
        &[0xE0, 0xA0, 0x80],
        &[0xE2, 0x82, 0xAC],
        &[0xED, 0x9F, 0xBF],
        &[0xEF, 0xBF, 0xBF],
        &[0xF0, 0x90, 0x80, 0x80],
        &[0xF4, 0x8F, 0xBF, 0xBF],
    ];
    // utf8_latin1_up_to: additionally malformed input
    const BAD_L1: &[&[u8]] = &[
        &[0x80],
        &[0xBF],
        &[0xC0, 0x80],
        &[0xC1, 0xBF],
        &[0xC2],
        &[0xC3],
        &[0xC2, 0x41],
        &[0xC3, 0x7F],
        &[0xC2, 0xC0],
        &[0xC3, 0xC3, 0x80],
        &[0xC2, 0xFF],
        &[0xE0, 0x80, 0x80],
        &[0xED, 0xA0, 0x80],
        &[0xF5, 0x80, 0x80, 0x80],
        &[0xFF],
    ];
    for len in 0..=160usize {
        for dense in [false, true] {
            let mut v = Vec::new();
            fill_latin1(rng, len, dense, &mut v);
            ctx.case8(out, "utf8latin1", &v);
            ctx.case8(out, "strlatin1", &v);
        }
        let pos = positions(len, thorough, rng);
        for &p in &pos {
            for (di, d) in NON_L1.iter().chain(BAD_L1.iter()).enumerate() {
                let denses: Vec<bool> = if thorough { vec![false, true] } else { vec![(p + di + len) % 2 == 0] };
                for dense in denses {
                    let mut v = Vec::new();
                    fill_latin1(rng, p, dense, &mut v);
                    v.extend_from_slice(d);
                    if v.len() < len {
                        let n = len - v.len();
                        if rng.chance(1, 2) {
                            fill_latin1(rng, n, dense, &mut v);
                        } else {
                            fill(rng, n, 1, &mut v);
                        }
                    }
                    // clip at a character boundary for the &str variant
                    let mut w = v.clone();
                    w.truncate(len);
                    ctx.case8(out, "utf8latin1", &w);
                    let ok = oracle_utf8(&w);
                    ctx.case8(out, "strlatin1", &w[..ok]);
                }
            }
        }
    }
    // valid UTF-8 of all kinds for strlatin1
    let n = if thorough { 40_000 } else { 4_000 };
    for _ in 0..n {
        let len = rng.below(200);
        let mut v = Vec::new();
        let p = rng.below(len + 1);
        let dense = rng.chance(1, 2);
        fill_latin1(rng, p, dense, &mut v);
        let kind = rng.below(4);
        fill(rng, len - p, kind, &mut v);
        ctx.case8(out, "strlatin1", &v);
        ctx.case8(out, "utf8latin1", &v);
    }
}

fn fill16(rng: &mut Rng, n: usize, kind: usize, v: &mut Vec<u16>) {
    const BMP: &[u16] = &[0x0041, 0x0020, 0x0000, 0x00E9, 0x3042, 0xD7FF, 0xE000, 0xFFFF, 0xFFFD];
    const PAIRS: &[(u16, u16)] = &[(0xD800, 0xDC00), (0xDBFF, 0xDFFF), (0xD83D, 0xDE00), (0xD800, 0xDFFF), (0xDBFF, 0xDC00)];
    let end = v.len() + n;
    while v.len() < end {
        let room = end - v.len();
        let want_pair = match kind {
            0 => false,
            1 => rng.chance(1, 5),
            _ => rng.chance(4, 5),
        };
        if want_pair && room >= 2 {
            let (h, l) = PAIRS[rng.below(PAIRS.len())];
            v.push(h);
            v.push(l);
        } else if kind == 2 && rng.chance(1, 2) {
            v.push(0x0020);
        } else {
            v.push(BMP[rng.below(BMP.len())]);
        }
    }
}

fn gen_utf16(ctx: &mut Ctx, out: &mut Out, thorough: bool, rng: &mut Rng) {
    // surrogate arrangements
    const DEF16: &[&[u16]] = &[
        &[0xD800],
        &[0xDBFF],
        &[0xDC00],
        &[0xDFFF],
        &[0xDC00, 0xD800],
        &[0xD800, 0xD800, 0xDC00],
        &[0xD800, 0xDC00, 0xDC00],
        &[0xD800, 0x0020],
        &[0xD800, 0x0041],
        &[0xD800, 0xDBFF],
        &[0xD800, 0xE000],
        &[0xD800, 0xD7FF],
        &[0xD83D, 0xDE00, 0x0020, 0xDC00],
        &[0xD83D, 0xDE00, 0x0020, 0x0020, 0xD800],
        &[0xD83D, 0xDE00, 0x0041, 0xD800],
        &[0xD83D, 0xDE00, 0xD83D],
        &[0xD83D, 0xDE00, 0xDE00],
        &[0xD7FF, 0xDC00],
        &[0xDBFF, 0xDBFF],
    ];
    for len in 0..=160usize {
        for kind in 0..3 {
            let mut v = Vec::new();
            fill16(rng, len, kind, &mut v);
            ctx.case16(out, &v);
        }
        let pos = positions(len, thorough, rng);
        for &p in &pos {
            for (di, d) in DEF16.iter().enumerate() {
                let kinds: Vec<usize> = if thorough { vec![0, 1, 2] } else { vec![(len + p + di) % 3] };
                for kind in kinds {
                    let mut v = Vec::new();
                    fill16(rng, p, kind, &mut v);
                    v.extend_from_slice(d);
                    if v.len() < len {
                        let n = len - v.len();
                        fill16(rng, n, kind, &mut v);
                    }
                    v.truncate(len);
                    ctx.case16(out, &v);
                    // a second defect further on
                    if rng.chance(1, 3) && v.len() > p + d.len() {
                        let q = p + d.len() + rng.below(v.len() - p - d.len());
                        v[q] = *rng.pick(&[0xD800u16, 0xDBFF, 0xDC00, 0xDFFF]);
                        ctx.case16(out, &v);
                    }
                }
            }
        }
    }
    let n = if thorough { 60_000 } else { 6_000 };
    for _ in 0..n {
        let len = rng.below(200);
        let mut v = Vec::new();
        let kind = rng.below(3);
        fill16(rng, len, kind, &mut v);
        for _ in 0..rng.below(3) {
            if !v.is_empty() {
                let i = rng.below(v.len());
                v[i] = *rng.pick(&[0xD800u16, 0xDBFF, 0xDC00, 0xDFFF, 0x0020, 0xD7FF, 0xE000]);
            }
        }
        ctx.case16(out, &v);
    }
}

pub fn generate(prop: &str, out: &mut Out, thorough: bool, seed: u64) -> bool {
    if prop != "C14" {
        return false;
    }
    let mut rng = Rng::new(seed ^ 0xC14);
    let mut ctx = Ctx::new();
    let prev = install_hook();
    gen_utf8(&mut ctx, out, thorough, &mut rng);
    gen_ascii(&mut ctx, out, thorough, &mut rng);
    gen_latin1(&mut ctx, out, thorough, &mut rng);
    gen_utf16(&mut ctx, out, thorough, &mut rng);
    // leave the hook in its default state
    encoding_rs::verif_force_scalar_utf8(false);
    std::panic::set_hook(prev);
    true
}
