//! C01: what the REAL decoder says about a complete stream, in the event notation of the
//! executable transcription of the Encoding Standard (lean/EncodingRs/Spec/Decode.lean,
//! driver op `specdec`):
//!
//!   specdec <ENC> <hex stream> => <events>      events: `.` | c<hex scalar>,e<start>:<len>,…
//!
//! The decoder is driven the documented way: `new_decoder_without_bom_handling`,
//! `decode_to_utf16_without_replacement` with `last = true` on the unconsumed rest, one big
//! buffer, again after every `Malformed(len, after)`; the error's span starts at
//! `consumed − after − len`.  Oracles (on the implementation alone): the numeric ranges of
//! `Malformed`, span inside the consumed bytes, no `OutputFull` with a query-sized buffer,
//! UTF-8 sink says the same, output well-formed.
use crate::dec::{enc_by_ident, gen_stream, ALL};
use crate::util::*;
use encoding_rs::*;

#[derive(Clone, PartialEq, Eq, Debug)]
pub enum Ev {
    Cp(u32),
    Err(usize, usize),
}

pub fn show(evs: &[Ev]) -> String {
    if evs.is_empty() {
        return ".".to_string();
    }
    evs.iter()
        .map(|e| match e {
            Ev::Cp(c) => format!("c{:x}", c),
            Ev::Err(s, l) => format!("e{}:{}", s, l),
        })
        .collect::<Vec<_>>()
        .join(",")
}

/// Events of the whole stream through the UTF-16 (`sink16`) or UTF-8 sink; `Err(why)` when the
/// decoder misbehaves in a way the notation cannot express.
pub fn impl_events(e: &'static Encoding, stream: &[u8], sink16: bool) -> Result<Vec<Ev>, String> {
    let mut d = e.new_decoder_without_bom_handling();
    let mut evs = Vec::new();
    let mut consumed = 0usize;
    let mut calls = 0usize;
    loop {
        calls += 1;
        if calls > 4 * stream.len() + 16 {
            return Err("no progress".to_string());
        }
        let src = &stream[consumed..];
        let res;
        let read;
        if sink16 {
            let cap = d.max_utf16_buffer_length(src.len()).ok_or("overflow")? + 2;
            let mut dst = vec![0u16; cap];
            let (r, rd, wr) = d.decode_to_utf16_without_replacement(src, &mut dst, true);
            for c in char::decode_utf16(dst[..wr].iter().copied()) {
                match c {
                    Ok(c) => evs.push(Ev::Cp(c as u32)),
                    Err(_) => return Err("unpaired surrogate written".to_string()),
                }
            }
            res = r;
            read = rd;
        } else {
            let cap = d.max_utf8_buffer_length_without_replacement(src.len()).ok_or("overflow")? + 4;
            let mut dst = vec![0u8; cap];
            let (r, rd, wr) = d.decode_to_utf8_without_replacement(src, &mut dst, true);
            match std::str::from_utf8(&dst[..wr]) {
                Ok(s) => {
                    for c in s.chars() {
                        evs.push(Ev::Cp(c as u32));
                    }
                }
                Err(_) => return Err("invalid UTF-8 written".to_string()),
            }
            res = r;
            read = rd;
        }
        if read > src.len() {
            return Err("read > src.len()".to_string());
        }
        consumed += read;
        match res {
            DecoderResult::InputEmpty => {
                if consumed != stream.len() {
                    return Err("InputEmpty before the end".to_string());
                }
                return Ok(evs);
            }
            DecoderResult::OutputFull => return Err("OutputFull with a query-sized buffer".to_string()),
            DecoderResult::Malformed(len, after) => {
                let (len, after) = (len as usize, after as usize);
                if !(1..=4).contains(&len) || after > 3 || len + after > 6 {
                    return Err(format!("Malformed({},{}) out of the documented ranges", len, after));
                }
                if len + after > consumed {
                    return Err(format!("Malformed({},{}) with only {} bytes consumed", len, after, consumed));
                }
                evs.push(Ev::Err(consumed - after - len, len));
            }
        }
    }
}

fn emit(out: &mut Out, e: &'static Encoding, stream: &[u8]) {
    let lhs = format!("specdec {} {}", ident(e), hex(stream));
    trace_op(&lhs);
    out.oracle_evals += 1;
    match catch(|| (impl_events(e, stream, true), impl_events(e, stream, false))) {
        Ok((Ok(a), b)) => {
            if b.as_ref() != Ok(&a) {
                out.fail("C01", &lhs, format!("UTF-8 sink disagrees with UTF-16 sink: {:?}", b.map(|x| show(&x))));
            }
            out.op(lhs, show(&a));
        }
        Ok((Err(why), _)) => {
            out.fail("C01", &lhs, why.clone());
            out.op(lhs, format!("bad:{}", why.replace(' ', "_")));
        }
        Err(p) => {
            out.fail("C01", &lhs, format!("panic {}", p));
            out.op(lhs, format!("panic:{}", p));
        }
    }
}

/// 64 class representatives: every lead/trail range boundary of every decoder
const CLASSES: [u8; 64] = [
    0x00, 0x0E, 0x0F, 0x1B, 0x20, 0x21, 0x24, 0x28, 0x2F, 0x30, 0x39, 0x3A, 0x3F, 0x40, 0x41, 0x42, 0x49, 0x4A, 0x5A,
    0x5C, 0x5F, 0x60, 0x61, 0x7A, 0x7E, 0x7F, 0x80, 0x81, 0x84, 0x87, 0x8E, 0x8F, 0x90, 0x9F, 0xA0, 0xA1, 0xA2, 0xA3,
    0xAD, 0xBF, 0xC0, 0xC1, 0xC2, 0xC6, 0xC8, 0xD7, 0xD8, 0xDB, 0xDC, 0xDF, 0xE0, 0xE3, 0xED, 0xEF, 0xF0, 0xF4, 0xF5,
    0xF9, 0xFA, 0xFC, 0xFD, 0xFE, 0xFF, 0x31,
];

fn gb_bytes(pointer: u32) -> [u8; 4] {
    [
        (pointer / (10 * 126 * 10)) as u8 + 0x81,
        (pointer / (10 * 126) % 10) as u8 + 0x30,
        (pointer / 10 % 126) as u8 + 0x81,
        (pointer % 10) as u8 + 0x30,
    ]
}

fn targeted(out: &mut Out) {
    // two-byte encodings: complete rows (lead x all 256 second bytes) at the special regions of each index
    // (Big5: 0x87/0x88 with the four two-code-point pointers 1133, 1135, 1164, 1166, first/last rows, astral rows;
    // Shift_JIS: hiragana/katakana fast tracks, NEC/IBM extensions, end-user-defined range; EUC-KR: extension and
    // KS X 1001 rows; EUC-JP: kana rows, extension rows; gb18030: GBK/GB2312 region corners)
    let rows: [(&'static Encoding, &[u8]); 6] = [
        (BIG5, &[0x81, 0x87, 0x88, 0x89, 0xA1, 0xA3, 0xC6, 0xC8, 0xF9, 0xFE]),
        (SHIFT_JIS, &[0x81, 0x82, 0x83, 0x84, 0x87, 0x88, 0x98, 0x9F, 0xE0, 0xEA, 0xED, 0xEE, 0xF0, 0xF9, 0xFA, 0xFC]),
        (EUC_KR, &[0x81, 0xA0, 0xA1, 0xA2, 0xA4, 0xA5, 0xA7, 0xAC, 0xB0, 0xC6, 0xC7, 0xC8, 0xCA, 0xFD, 0xFE]),
        (EUC_JP, &[0x8E, 0xA1, 0xA2, 0xA4, 0xA5, 0xA8, 0xAD, 0xB0, 0xCF, 0xF4, 0xF9, 0xFC, 0xFE]),
        (GB18030, &[0x81, 0xA0, 0xA1, 0xA2, 0xA6, 0xA8, 0xA9, 0xAA, 0xB0, 0xD7, 0xF7, 0xF8, 0xFD, 0xFE]),
        (GBK, &[0x81, 0xA2, 0xA8, 0xFE]),
    ];
    for (e, leads) in rows.iter() {
        for &l in leads.iter() {
            for b in 0..=255u8 {
                emit(out, e, &[l, b]);
            }
        }
    }
    // ISO-2022-JP: complete rows in the two-byte state
    for &l in &[0x21u8, 0x22, 0x24, 0x25, 0x28, 0x2D, 0x30, 0x4F, 0x74, 0x79, 0x7C, 0x7E] {
        for b in 0..=255u8 {
            emit(out, ISO_2022_JP, &[0x1B, 0x24, 0x42, l, b]);
        }
    }
    // EUC-JP: three-byte forms with the 0x8F lead, each truncated / followed by a byte of every class
    for &l in &[0xA1u8, 0xA2, 0xA6, 0xA7, 0xA9, 0xAA, 0xAB, 0xB0, 0xC4, 0xED, 0xEE, 0xF3, 0xF4, 0xFE, 0xA0, 0x8F, 0x41] {
        for &t in &CLASSES {
            emit(out, EUC_JP, &[0x8F, l, t]);
            emit(out, EUC_JP, &[0x8F, l, t, 0x41]);
            emit(out, EUC_JP, &[0x8E, t, l]);
        }
    }
    // gb18030 / GBK: four-byte edges
    let edges: [u32; 22] = [
        0, 1, 35, 36, 7456, 7457, 7458, 39393, 39394, 39395, 39418, 39419, 39420, 39421, 188999, 189000, 189001, 1237574,
        1237575, 1237576, 1237577, 1587599,
    ];
    for &e in &[GB18030, GBK] {
        for &p in &edges {
            let b = gb_bytes(p);
            emit(out, e, &b);
            emit(out, e, &b[..3]);
            emit(out, e, &b[..2]);
            for &x in &CLASSES {
                emit(out, e, &[b[0], b[1], b[2], x]);
                emit(out, e, &[b[0], b[1], x, b[3]]);
                emit(out, e, &[b[0], b[1], x]);
                emit(out, e, &[b[0], b[1], b[2], x, 0x41]);
                emit(out, e, &[b[0], b[1], b[2], x, 0x81, 0x30]);
            }
        }
        // every range start of the index and its neighbours
        for p in (0..39420u32).step_by(97) {
            emit(out, e, &gb_bytes(p));
        }
    }
    // UTF-8 boundaries
    let leads: [u8; 16] = [0xC0, 0xC1, 0xC2, 0xDF, 0xE0, 0xE1, 0xEC, 0xED, 0xEE, 0xEF, 0xF0, 0xF1, 0xF3, 0xF4, 0xF5, 0xFF];
    let conts: [u8; 12] = [0x41, 0x7F, 0x80, 0x8F, 0x90, 0x9F, 0xA0, 0xBF, 0xC0, 0xC2, 0xE0, 0xFF];
    for &a in &leads {
        for &b in &conts {
            emit(out, UTF_8, &[a, b]);
            for &c in &conts {
                emit(out, UTF_8, &[a, b, c]);
                for &d in &conts {
                    emit(out, UTF_8, &[a, b, c, d]);
                }
            }
        }
    }
    // ISO-2022-JP: every escape fragment in every output state, followed by classes
    let escs: [&[u8]; 12] = [
        b"\x1b", b"\x1b$", b"\x1b(", b"\x1b(B", b"\x1b(J", b"\x1b(I", b"\x1b$@", b"\x1b$B", b"\x1b$A", b"\x1b(A", b"\x1b\x1b",
        b"\x1b$\x1b",
    ];
    let pre: [&[u8]; 8] = [b"", b"A", b"\x1b(J", b"\x1b(I", b"\x1b$B", b"\x1b$B0", b"\x1b$B0!", b"\x1b(B"];
    for p in &pre {
        for a in &escs {
            for b in &escs {
                let mut v = p.to_vec();
                v.extend_from_slice(a);
                v.extend_from_slice(b);
                emit(out, ISO_2022_JP, &v);
                for &x in &[0x0Eu8, 0x21, 0x24, 0x28, 0x41, 0x5C, 0x5F, 0x60, 0x7E, 0x7F, 0x80, 0xA1] {
                    let mut w = v.clone();
                    w.push(x);
                    emit(out, ISO_2022_JP, &w);
                    w.push(x);
                    emit(out, ISO_2022_JP, &w);
                }
            }
        }
    }
    // UTF-16: surrogate arrangements, odd lengths
    let units: [u16; 8] = [0x0041, 0xD7FF, 0xD800, 0xDBFF, 0xDC00, 0xDFFF, 0xE000, 0xFFFF];
    for &e in &[UTF_16LE, UTF_16BE] {
        for &a in &units {
            for &b in &units {
                for &c in &units {
                    let mut v = Vec::new();
                    for u in [a, b, c] {
                        v.extend_from_slice(&if e == UTF_16LE { u.to_le_bytes() } else { u.to_be_bytes() });
                    }
                    emit(out, e, &v);
                    emit(out, e, &v[..5]);
                    emit(out, e, &v[..3]);
                }
            }
        }
    }
}

pub fn generate(prop: &str, out: &mut Out, thorough: bool, seed: u64) -> bool {
    if prop != "C01" {
        return false;
    }
    let mut rng = Rng::new(seed ^ 0xC01);
    for &e in ALL.iter() {
        emit(out, e, &[]);
        for a in 0..=255u8 {
            emit(out, e, &[a]);
        }
        if thorough {
            for a in 0..=255u8 {
                for b in 0..=255u8 {
                    emit(out, e, &[a, b]);
                }
            }
        } else {
            for &a in &CLASSES {
                for &b in &CLASSES {
                    emit(out, e, &[a, b]);
                }
            }
        }
        // three-byte strings over a coarser alphabet (state after an error / an unread byte)
        let coarse: [u8; 16] = [0x1B, 0x24, 0x30, 0x41, 0x7F, 0x80, 0x81, 0x8E, 0x8F, 0xA1, 0xC2, 0xD8, 0xDC, 0xE0, 0xFE, 0xFF];
        for &a in &coarse {
            for &b in &coarse {
                for &c in &coarse {
                    emit(out, e, &[a, b, c]);
                }
            }
        }
        let per = if thorough { 50_000 } else { 2_000 };
        for i in 0..per {
            let maxlen = if i % 5 == 4 { 120 } else { 12 };
            let s = gen_stream(&mut rng, e, maxlen);
            emit(out, e, &s);
        }
    }
    targeted(out);
    if thorough {
        complete_tables(out);
    }
    true
}

/// thorough: the multi-byte spaces that two-byte strings do not reach, enumerated completely, so that a
/// single changed entry of any decode table has a concrete failing input: every gb18030 / GBK four-byte
/// sequence of the BMP range pointers (0..=39419) and the astral boundaries, every EUC-JP three-byte
/// (0x8F) sequence, every ISO-2022-JP two-byte sequence in the JIS X 0208 state and every byte in the
/// katakana state
fn complete_tables(out: &mut Out) {
    use encoding_rs::{EUC_JP, GB18030, GBK, ISO_2022_JP};
    for &e in &[GB18030, GBK] {
        let mut emit_ptr = |p: u32| {
            let b4 = (p % 10) as u8 + 0x30;
            let b3 = ((p / 10) % 126) as u8 + 0x81;
            let b2 = ((p / 1260) % 10) as u8 + 0x30;
            let b1 = (p / 12600) as u8 + 0x81;
            emit(out, e, &[b1, b2, b3, b4]);
        };
        for p in 0..=39420u32 {
            emit_ptr(p);
        }
        for p in [188999u32, 189000, 189001, 1237575, 1237576, 1237577, 1587599] {
            emit_ptr(p);
        }
        let mut p = 189000u32;
        while p < 1237576 {
            emit_ptr(p);
            p += 4099;
        }
    }
    for a in 0xA1..=0xFEu8 {
        for b in 0xA1..=0xFEu8 {
            emit(out, EUC_JP, &[0x8F, a, b]);
        }
    }
    for a in 0x21..=0x7Eu8 {
        for b in 0x21..=0x7Eu8 {
            emit(out, ISO_2022_JP, &[0x1B, 0x24, 0x42, a, b]);
        }
    }
    for a in 0x00..=0xFFu8 {
        emit(out, ISO_2022_JP, &[0x1B, 0x28, 0x49, a]);
        emit(out, ISO_2022_JP, &[0x1B, 0x28, 0x4A, a]);
    }
}

pub fn replay(toks: &[&str], out: &mut Out) -> bool {
    if toks[0] != "specdec" {
        return false;
    }
    if toks.len() == 3 {
        if let Some(e) = enc_by_ident(toks[1]) {
            emit(out, e, &unhex(toks[2]));
        }
    }
    true
}
