//! C11: the one-shot convenience API (`Encoding::decode`, `decode_with_bom_removal`,
//! `decode_without_bom_handling`, `decode_without_bom_handling_and_without_replacement`,
//! `encode`) equals the streaming API fed the whole input, and borrows exactly when
//! the documentation promises a borrow (and then aliases the caller's bytes).
//!
//! Operation line (see lean/Driver/Ops/OneShot.lean):
//!   oneshot <ENC> <decode|bomrm|nobom|nobomnorepl> <hex input>
//!       => <hex of UTF-8 result>|none <encoding-used ident> <had_errors 0|1> <borrowed 0|1>
//!   oneshotenc <ENC> <hex of the UTF-8 input>
//!       => <hex of the bytes> <encoding-used ident> <had_unmappables 0|1> <borrowed 0|1>
//! (`Encoding::encode` against `Model.OneShot.encode`; emitted for every input up to 130 bytes and
//! every 8th (thorough: 24th) longer one — the oracles run on every input).
use crate::dec::{enc_by_ident, gen_stream, new_decoder, Bom, ALL, ALPHABET};
use crate::util::*;
use encoding_rs::*;
use std::borrow::Cow;

#[derive(Clone, Copy, PartialEq, Eq, Debug)]
pub enum Func {
    Decode,
    BomRm,
    NoBom,
    NoBomNoRepl,
}

pub const FUNCS: [Func; 4] = [Func::Decode, Func::BomRm, Func::NoBom, Func::NoBomNoRepl];

impl Func {
    pub fn name(self) -> &'static str {
        match self {
            Func::Decode => "decode",
            Func::BomRm => "bomrm",
            Func::NoBom => "nobom",
            Func::NoBomNoRepl => "nobomnorepl",
        }
    }
    pub fn parse(s: &str) -> Option<Func> {
        FUNCS.iter().copied().find(|f| f.name() == s)
    }
}

/// What a one-shot call returned, with the `Cow` taken apart.
#[derive(Clone, Debug)]
pub struct Obs {
    /// `None` only for the without-replacement form
    pub text: Option<String>,
    pub enc: &'static Encoding,
    pub had_errors: bool,
    pub borrowed: bool,
    /// (ptr, len) of a borrowed result
    pub span: Option<(usize, usize)>,
}

fn take_cow(c: Cow<'_, str>) -> (String, bool, Option<(usize, usize)>) {
    match c {
        Cow::Borrowed(s) => (s.to_string(), true, Some((s.as_ptr() as usize, s.len()))),
        Cow::Owned(s) => (s, false, None),
    }
}

pub fn run_oneshot(e: &'static Encoding, f: Func, input: &[u8]) -> Result<Obs, String> {
    let inp = std::panic::AssertUnwindSafe(input);
    catch(move || {
        let input: &[u8] = *inp;
        match f {
            Func::Decode => {
                let (cow, enc, he) = e.decode(input);
                let (t, b, sp) = take_cow(cow);
                Obs { text: Some(t), enc, had_errors: he, borrowed: b, span: sp }
            }
            Func::BomRm => {
                let (cow, he) = e.decode_with_bom_removal(input);
                let (t, b, sp) = take_cow(cow);
                Obs { text: Some(t), enc: e, had_errors: he, borrowed: b, span: sp }
            }
            Func::NoBom => {
                let (cow, he) = e.decode_without_bom_handling(input);
                let (t, b, sp) = take_cow(cow);
                Obs { text: Some(t), enc: e, had_errors: he, borrowed: b, span: sp }
            }
            Func::NoBomNoRepl => match e.decode_without_bom_handling_and_without_replacement(input) {
                Some(cow) => {
                    let (t, b, sp) = take_cow(cow);
                    Obs { text: Some(t), enc: e, had_errors: false, borrowed: b, span: sp }
                }
                None => Obs { text: None, enc: e, had_errors: true, borrowed: false, span: None },
            },
        }
    })
}

fn b01(b: bool) -> &'static str {
    if b {
        "1"
    } else {
        "0"
    }
}

pub fn op_lhs(e: &'static Encoding, f: Func, input: &[u8]) -> String {
    format!("oneshot {} {} {}", ident(e), f.name(), hex(input))
}

pub fn op_rhs(r: &Result<Obs, String>) -> String {
    match r {
        Err(_) => "panic".to_string(),
        Ok(o) => match &o.text {
            None => format!("none {} 1 0", ident(o.enc)),
            Some(t) => format!("{} {} {} {}", hex(t.as_bytes()), ident(o.enc), b01(o.had_errors), b01(o.borrowed)),
        },
    }
}

/// The streaming decoder with replacement fed `input` in chunks of `chunk` bytes
/// (`None`: one call), `String` sink grown to the documented worst case before each call.
fn stream_decode(e: &'static Encoding, bom: Bom, input: &[u8], chunk: Option<usize>) -> Result<(String, &'static Encoding, bool), String> {
    let inp = std::panic::AssertUnwindSafe(input);
    catch(move || {
        let input: &[u8] = *inp;
        let mut d = new_decoder(e, bom);
        let mut s = String::new();
        let mut had = false;
        let step = chunk.unwrap_or(usize::MAX);
        let mut pos = 0usize;
        loop {
            let end = if input.len() - pos > step { pos + step } else { input.len() };
            let last = end == input.len();
            let mut rem = &input[pos..end];
            let mut rounds = 0usize;
            loop {
                rounds += 1;
                if rounds > 8 {
                    panic!("streaming decoder keeps answering OutputFull with a worst-case sized String");
                }
                s.reserve(d.max_utf8_buffer_length(rem.len()).unwrap());
                let (r, rd, he) = d.decode_to_string(rem, &mut s, last);
                had |= he;
                rem = &rem[rd..];
                match r {
                    CoderResult::InputEmpty => break,
                    CoderResult::OutputFull => {}
                }
            }
            pos = end;
            if last {
                break;
            }
        }
        (s, d.encoding(), had)
    })
}

/// The streaming decoder without replacement fed the whole input: `None` = it reported `Malformed`.
fn stream_decode_norepl(e: &'static Encoding, input: &[u8], chunk: Option<usize>) -> Result<Option<String>, String> {
    let inp = std::panic::AssertUnwindSafe(input);
    catch(move || {
        let input: &[u8] = *inp;
        let mut d = e.new_decoder_without_bom_handling();
        let mut s = String::new();
        let step = chunk.unwrap_or(usize::MAX);
        let mut pos = 0usize;
        loop {
            let end = if input.len() - pos > step { pos + step } else { input.len() };
            let last = end == input.len();
            let mut rem = &input[pos..end];
            let mut rounds = 0usize;
            loop {
                rounds += 1;
                if rounds > 8 {
                    panic!("streaming decoder keeps answering OutputFull with a worst-case sized String");
                }
                s.reserve(d.max_utf8_buffer_length_without_replacement(rem.len()).unwrap());
                let (r, rd) = d.decode_to_string_without_replacement(rem, &mut s, last);
                rem = &rem[rd..];
                match r {
                    DecoderResult::InputEmpty => break,
                    DecoderResult::OutputFull => {}
                    DecoderResult::Malformed(_, _) => return None,
                }
            }
            pos = end;
            if last {
                break;
            }
        }
        Some(s)
    })
}

/// (encoding that the documentation says is used, number of BOM bytes removed)
fn documented_bom(e: &'static Encoding, f: Func, input: &[u8]) -> (&'static Encoding, usize) {
    match f {
        Func::Decode => {
            if input.len() >= 3 && input[0] == 0xEF && input[1] == 0xBB && input[2] == 0xBF {
                (UTF_8, 3)
            } else if input.len() >= 2 && input[0] == 0xFF && input[1] == 0xFE {
                (UTF_16LE, 2)
            } else if input.len() >= 2 && input[0] == 0xFE && input[1] == 0xFF {
                (UTF_16BE, 2)
            } else {
                (e, 0)
            }
        }
        Func::BomRm => {
            if e == UTF_8 && input.len() >= 3 && input[0] == 0xEF && input[1] == 0xBB && input[2] == 0xBF {
                (e, 3)
            } else if e == UTF_16LE && input.len() >= 2 && input[0] == 0xFF && input[1] == 0xFE {
                (e, 2)
            } else if e == UTF_16BE && input.len() >= 2 && input[0] == 0xFE && input[1] == 0xFF {
                (e, 2)
            } else {
                (e, 0)
            }
        }
        _ => (e, 0),
    }
}

/// the documented borrow condition for decoding `rest` (BOM already removed) as `enc`
fn documented_decode_borrow(enc: &'static Encoding, rest: &[u8]) -> bool {
    if enc == UTF_8 {
        std::str::from_utf8(rest).is_ok()
    } else if enc == ISO_2022_JP {
        rest.iter().all(|&b| b < 0x80 && b != 0x0E && b != 0x0F && b != 0x1B)
    } else if enc == REPLACEMENT || enc == UTF_16BE || enc == UTF_16LE {
        false
    } else {
        rest.iter().all(|&b| b < 0x80)
    }
}

fn short(s: &str) -> String {
    let h = hex(s.as_bytes());
    if h.len() > 48 {
        format!("{}…({} bytes)", &h[..48], s.len())
    } else {
        h
    }
}

/// Oracles (i), (ii), (iii), (v) for one decode call.
pub fn decode_oracles(out: &mut Out, e: &'static Encoding, f: Func, input: &[u8], r: &Result<Obs, String>) {
    out.oracle_evals += 1;
    let lhs = op_lhs(e, f, input);
    let o = match r {
        Ok(o) => o,
        Err(m) => {
            out.fail("C11", &lhs, format!("one-shot call panicked: {}", m));
            return;
        }
    };
    let (doc_enc, skip) = documented_bom(e, f, input);
    let rest = &input[skip..];
    // encoding used
    if o.enc != doc_enc {
        out.fail("C11", &lhs, format!("encoding used = {} but documented {}", o.enc.name(), doc_enc.name()));
    }
    match f {
        Func::Decode | Func::BomRm | Func::NoBom => {
            let bom = match f {
                Func::Decode => Bom::Sniff,
                Func::BomRm => Bom::Remove,
                _ => Bom::Off,
            };
            for chunk in [None, Some(7usize)] {
                match stream_decode(e, bom, input, chunk) {
                    Err(m) => out.fail("C11", &lhs, format!("streaming reference panicked (chunk={:?}): {}", chunk, m)),
                    Ok((st, senc, shad)) => {
                        if Some(&st) != o.text.as_ref() {
                            out.fail(if c09() { "C09" } else { "C11" }, &lhs, format!("text differs from the streaming decoder (chunk={:?}): oneshot={} streaming={}", chunk, short(o.text.as_deref().unwrap_or("")), short(&st)));
                        }
                        if shad != o.had_errors {
                            out.fail(if c09() { "C09" } else { "C11" }, &lhs, format!("had_errors={} but the streaming decoder (chunk={:?}) says {}", o.had_errors, chunk, shad));
                        }
                        if f == Func::Decode && senc != o.enc {
                            out.fail("C11", &lhs, format!("encoding used = {} but the streaming decoder (chunk={:?}) ends as {}", o.enc.name(), chunk, senc.name()));
                        }
                    }
                }
            }
        }
        Func::NoBomNoRepl => {
            for chunk in [None, Some(7usize)] {
                match stream_decode_norepl(e, input, chunk) {
                    Err(m) => out.fail("C11", &lhs, format!("streaming reference panicked (chunk={:?}): {}", chunk, m)),
                    Ok(st) => {
                        if st.is_none() != o.text.is_none() {
                            out.fail("C11", &lhs, format!("returned {} but the streaming decoder without replacement (chunk={:?}) {} Malformed", if o.text.is_none() { "None" } else { "Some" }, chunk, if st.is_none() { "reports" } else { "does not report" }));
                        } else if st != o.text {
                            out.fail("C11", &lhs, format!("text differs from the streaming decoder without replacement (chunk={:?})", chunk));
                        }
                    }
                }
            }
        }
    }
    // (iii) borrow exactly when documented, and then the very bytes of the caller
    if o.text.is_some() {
        let want = documented_decode_borrow(doc_enc, rest);
        if o.borrowed != want {
            out.fail("C11", &lhs, format!("Cow::{} but the documentation {} a borrow ({} on {} bytes after the BOM)", if o.borrowed { "Borrowed" } else { "Owned" }, if want { "promises" } else { "does not allow" }, doc_enc.name(), rest.len()));
        }
        if let Some((p, l)) = o.span {
            let base = input.as_ptr() as usize;
            if !(p >= base && p + l <= base + input.len()) {
                out.fail("C11", &lhs, "borrowed result lies outside the caller's slice".into());
            } else if p != rest.as_ptr() as usize || l != rest.len() {
                out.fail("C11", &lhs, format!("borrowed result is input[{}..{}] instead of input[{}..]", p - base, p - base + l, skip));
            }
        }
    }
    // a result is always valid UTF-8 (the borrow is made with from_utf8_unchecked)
    if let Some(t) = &o.text {
        if std::str::from_utf8(t.as_bytes()).is_err() {
            out.fail("C11", &lhs, "result is not valid UTF-8".into());
        }
    }
}

/// exact-size heap copy at a varying start offset, so that aliasing / over-reads show
fn with_exact<T>(input: &[u8], off: usize, f: impl FnOnce(&[u8]) -> T) -> T {
    let mut store: Vec<u8> = Vec::with_capacity(input.len() + off);
    store.resize(off, 0xEE);
    store.extend_from_slice(input);
    f(&store[off..])
}

/// run the four functions on one input; `emit`: write operation lines for the model
/// C09 mode: the one-shot with-replacement functions are "replacement modes" too - their text and
/// had_errors flag must equal the manual procedure over the streaming decoder; a thinned version of the C11
/// generator runs under C09 and reports those two oracles under that id
pub static C09_MODE: std::sync::atomic::AtomicBool = std::sync::atomic::AtomicBool::new(false);
fn c09() -> bool {
    C09_MODE.load(std::sync::atomic::Ordering::Relaxed)
}

pub fn check_input(out: &mut Out, e: &'static Encoding, input: &[u8], emit_mask: u8, off: usize) {
    if c09() && off % 5 != 0 {
        return;
    }
    with_exact(input, off % 16, |inp| {
        for (i, f) in FUNCS.iter().enumerate() {
            trace_op(&op_lhs(e, *f, inp));
            let r = run_oneshot(e, *f, inp);
            if emit_mask & (1 << i) != 0 {
                out.op(op_lhs(e, *f, inp), op_rhs(&r));
            }
            decode_oracles(out, e, *f, inp, &r);
        }
    });
}

// ---------------------------------------------------------------------------
// encode (oracle only)

fn stream_encode(e: &'static Encoding, s: &str, chunk: Option<usize>) -> Result<(Vec<u8>, &'static Encoding, bool), String> {
    let sp = std::panic::AssertUnwindSafe(s);
    catch(move || {
        let s: &str = *sp;
        let mut enc = e.new_encoder();
        let mut v: Vec<u8> = Vec::new();
        let mut had = false;
        let step = chunk.unwrap_or(usize::MAX);
        let mut pos = 0usize;
        loop {
            let mut end = if s.len() - pos > step { pos + step } else { s.len() };
            while !s.is_char_boundary(end) {
                end += 1;
            }
            let last = end == s.len();
            let mut rem = &s[pos..end];
            let mut rounds = 0usize;
            loop {
                rounds += 1;
                if rounds > 10 * (rem.len() + 2) {
                    panic!("streaming encoder does not finish");
                }
                v.reserve(enc.max_buffer_length_from_utf8_if_no_unmappables(rem.len()).unwrap());
                let (r, rd, he) = enc.encode_from_utf8_to_vec(rem, &mut v, last);
                had |= he;
                rem = &rem[rd..];
                match r {
                    CoderResult::InputEmpty => break,
                    CoderResult::OutputFull => {}
                }
            }
            pos = end;
            if last {
                break;
            }
        }
        (v, enc.encoding(), had)
    })
}

pub fn encode_oracles(out: &mut Out, e: &'static Encoding, s: &str) {
    encode_oracles_emit(out, e, s, true)
}

pub fn encode_oracles_emit(out: &mut Out, e: &'static Encoding, s: &str, emit: bool) {
    out.oracle_evals += 1;
    let lhs = format!("oneshotenc {} {}", ident(e), hex(s.as_bytes()));
    let sp = std::panic::AssertUnwindSafe(s);
    let r = catch(move || {
        let s: &str = *sp;
        let (cow, enc, had) = e.encode(s);
        match cow {
            Cow::Borrowed(b) => (b.to_vec(), enc, had, true, Some((b.as_ptr() as usize, b.len()))),
            Cow::Owned(v) => (v, enc, had, false, None),
        }
    });
    let (bytes, enc, had, borrowed, span) = match r {
        Ok(x) => x,
        Err(m) => {
            out.fail("C11", &lhs, format!("encode panicked: {}", m));
            return;
        }
    };
    if emit {
        out.op(lhs.clone(), format!("{} {} {} {}", hex(&bytes), ident(enc), b01(had), b01(borrowed)));
    }
    let doc_out = if e == REPLACEMENT || e == UTF_16BE || e == UTF_16LE { UTF_8 } else { e };
    if enc != doc_out || enc != e.output_encoding() {
        out.fail("C11", &lhs, format!("encode reports {} but the output encoding is {}", enc.name(), doc_out.name()));
    }
    for chunk in [None, Some(7usize)] {
        match stream_encode(e, s, chunk) {
            Err(m) => out.fail("C11", &lhs, format!("streaming encoder panicked (chunk={:?}): {}", chunk, m)),
            Ok((sv, senc, shad)) => {
                if sv != bytes {
                    out.fail("C11", &lhs, format!("bytes differ from the streaming encoder (chunk={:?}): oneshot={} streaming={}", chunk, hex(&bytes[..bytes.len().min(24)]), hex(&sv[..sv.len().min(24)])));
                }
                if shad != had {
                    out.fail("C11", &lhs, format!("had_unmappables={} but the streaming encoder (chunk={:?}) says {}", had, chunk, shad));
                }
                if senc != enc {
                    out.fail("C11", &lhs, format!("encoding used {} but the streaming encoder is for {}", enc.name(), senc.name()));
                }
            }
        }
    }
    let b = s.as_bytes();
    let want = if doc_out == UTF_8 {
        true
    } else if doc_out == ISO_2022_JP {
        b.iter().all(|&x| x < 0x80 && x != 0x0E && x != 0x0F && x != 0x1B)
    } else {
        b.iter().all(|&x| x < 0x80)
    };
    if borrowed != want {
        out.fail("C11", &lhs, format!("encode returned Cow::{} but the documentation {} a borrow", if borrowed { "Borrowed" } else { "Owned" }, if want { "promises" } else { "does not allow" }));
    }
    if let Some((p, l)) = span {
        if p != b.as_ptr() as usize || l != b.len() {
            out.fail("C11", &lhs, "borrowed encode result is not the caller's own bytes".into());
        }
    }
    if borrowed && had {
        out.fail("C11", &lhs, "borrowed encode result with had_unmappables".into());
    }
}

// ---------------------------------------------------------------------------
// generators

fn ascii_filler(len: usize, salt: usize) -> Vec<u8> {
    // printable ASCII with an occasional NUL / DEL; never 0x0E, 0x0F, 0x1B
    (0..len)
        .map(|i| {
            let k = (i * 7 + salt * 13) % 101;
            match k {
                99 => 0x00,
                100 => 0x7F,
                _ => 0x20 + (k as u8 % 0x5F),
            }
        })
        .collect()
}

/// a non-ASCII character that `e` can represent, as bytes of `e`
fn native_char(e: &'static Encoding, which: usize) -> Vec<u8> {
    let cands = ["é", "あ", "Ω", "я", "中", "한", "ก", "ש", "ع", "€", "\u{A0}", "\u{F7A0}", "ｶ", "丂"];
    let n = cands.len();
    for k in 0..n {
        let c = cands[(which + k) % n];
        if e == UTF_16LE || e == UTF_16BE {
            let u = c.encode_utf16().next().unwrap();
            return if e == UTF_16LE { u.to_le_bytes().to_vec() } else { u.to_be_bytes().to_vec() };
        }
        let (b, _, had) = e.encode(c);
        if !had && b.iter().any(|&x| x >= 0x80 || x == 0x1B) {
            return b.into_owned();
        }
    }
    vec![0x80]
}

/// the "first offending unit" patterns; `k` selects
fn offender(e: &'static Encoding, k: usize, salt: usize) -> Vec<u8> {
    match k % 16 {
        0 => vec![0x80],
        1 => vec![0xFF],
        2 => vec![0x1B],
        3 => vec![0x0E],
        4 => vec![0x0F],
        5 => native_char(e, salt),
        6 => {
            // truncated native character: its first byte only
            let c = native_char(e, salt);
            vec![c[0]]
        }
        7 => "é".as_bytes().to_vec(),
        8 => "あ".as_bytes().to_vec(),
        9 => "\u{1F600}".as_bytes().to_vec(),
        10 => vec![0xED, 0xA0, 0x80],
        11 => vec![0xF4, 0x90, 0x80, 0x80],
        12 => vec![0xF0, 0x9F, 0x98],
        13 => vec![0x1B, 0x24, 0x42, 0x30, 0x21, 0x1B, 0x28, 0x42],
        14 => vec![0xC0, 0x80],
        _ => vec![0xBF],
    }
}

const BOMS: [&[u8]; 8] = [b"\xEF\xBB\xBF", b"\xFE\xFF", b"\xFF\xFE", b"\xEF\xBB", b"\xEF", b"\xFE", b"\xFF", b"\xEF\xBB\xBE"];

fn lengths(thorough: bool) -> Vec<usize> {
    if thorough {
        let mut v: Vec<usize> = (0..=130).collect();
        v.extend_from_slice(&[191, 192, 193, 255, 256, 257, 511, 512, 513, 1000, 1023, 1024, 1025, 2047, 2048, 2049, 3000, 4095, 4096]);
        v
    } else {
        vec![0, 1, 2, 3, 4, 7, 15, 16, 17, 31, 32, 33, 63, 64, 65, 127, 128, 129, 1000, 4096]
    }
}

/// inputs of length `len` whose first non-ASCII / invalid / escape unit is at position `q`
fn make_input(e: &'static Encoding, len: usize, q: usize, kind: usize, tail: usize, rng: &mut Rng) -> Vec<u8> {
    let mut v = ascii_filler(len, q + kind);
    if q >= len {
        return v;
    }
    let off = offender(e, kind, q + len);
    let mut i = q;
    match tail % 3 {
        0 => {
            // one offender, ASCII afterwards
            for &b in &off {
                if i < len {
                    v[i] = b;
                    i += 1;
                }
            }
        }
        1 => {
            // the offender repeated to the end (possibly cut in the middle)
            while i < len {
                for &b in &off {
                    if i < len {
                        v[i] = b;
                        i += 1;
                    }
                }
            }
        }
        _ => {
            // offender, then a malformed / random tail
            for &b in &off {
                if i < len {
                    v[i] = b;
                    i += 1;
                }
            }
            while i < len {
                v[i] = if rng.chance(1, 2) { *rng.pick(ALPHABET) } else { rng.below(256) as u8 };
                i += 1;
            }
        }
    }
    v
}

fn emit_mask_for(len: usize, counter: usize, thorough: bool) -> u8 {
    if len <= 130 && !thorough {
        0b1111
    } else if len <= 130 {
        // thorough: one function of every second input, rotating (the oracles still run on all four)
        if counter % 2 == 0 {
            1 << ((counter / 2) % 4)
        } else {
            0
        }
    } else {
        // long inputs: one function of one input in `every`, rotating
        let every = if thorough { 24 } else { 12 };
        if counter % every == 0 {
            1 << ((counter / every) % 4)
        } else {
            0
        }
    }
}

fn gen_decode(out: &mut Out, rng: &mut Rng, thorough: bool) {
    let lens = lengths(thorough);
    let mut counter = 0usize;
    for &e in ALL.iter() {
        for &len in &lens {
            // the all-ASCII buffer of this length
            counter += 1;
            let v = ascii_filler(len, len);
            check_input(out, e, &v, emit_mask_for(len, counter, thorough), counter);
            // first offending unit at every position modulo 64 (lowest and highest such position)
            for p in 0..64usize {
                if p >= len {
                    break;
                }
                let hi = p + (len - 1 - p) / 64 * 64;
                let mid = p + ((len - 1 - p) / 64 / 2) * 64;
                let mut qs = vec![p];
                if hi != p {
                    qs.push(hi);
                }
                if thorough && mid != p && mid != hi {
                    qs.push(mid);
                }
                for (qi, &q) in qs.iter().enumerate() {
                    let kinds: Vec<usize> = if thorough {
                        (0..4).map(|j| (p + len + qi * 5 + j * 4) % 16).collect()
                    } else {
                        vec![(p + len + qi * 5) % 16, (p * 3 + len + 7 + qi) % 16]
                    };
                    for kind in kinds {
                        let tails: Vec<usize> = if thorough && len <= 33 { vec![0, 1, 2] } else { vec![(p + kind + len) % 3] };
                        for tail in tails {
                            counter += 1;
                            let v = make_input(e, len, q, kind, tail, rng);
                            check_input(out, e, &v, emit_mask_for(len, counter, thorough), counter);
                            // BOM-prefixed variants
                            let nb = if thorough { 3 } else { 5 };
                            if counter % nb == 0 {
                                let pre = BOMS[(counter / nb) % BOMS.len()];
                                let mut w = pre.to_vec();
                                w.extend_from_slice(&v);
                                w.truncate(len.max(pre.len()));
                                check_input(out, e, &w, emit_mask_for(w.len(), counter, thorough), counter + 3);
                            }
                        }
                    }
                }
            }
        }
        // every short sequence of UTF-8 length classes as the end of the input (validator hand-over
        // conditions decide borrow / None / had_errors): for the encodings that run a validator over it
        if e == encoding_rs::UTF_8 || e == encoding_rs::WINDOWS_1252 || e == encoding_rs::ISO_2022_JP {
            for v in utf8_tail_shapes() {
                counter += 1;
                check_input(out, e, &v, emit_mask_for(v.len(), counter, thorough), counter);
            }
        }
        // BOMs alone and BOM + one unit
        for pre in BOMS {
            counter += 1;
            check_input(out, e, pre, 0b1111, counter);
            for extra in [&b"a"[..], b"\x80", b"\xE3\x81\x82", b"a\x00", b"\x00a", b"\xD8\x00"] {
                let mut w = pre.to_vec();
                w.extend_from_slice(extra);
                counter += 1;
                check_input(out, e, &w, 0b1111, counter);
            }
        }
        // mostly-valid encoder-produced text and malformed streams
        let per = if thorough { 3000 } else { 220 };
        for i in 0..per {
            let maxlen = match i % 6 {
                0 | 1 | 2 => 12,
                3 | 4 => 130,
                _ => 700,
            };
            let mut v = gen_stream(rng, e, maxlen);
            if i % 7 == 3 {
                // ASCII head, so that the validated prefix is non-empty
                let mut w = ascii_filler(rng.below(80), i);
                w.extend_from_slice(&v);
                v = w;
            }
            counter += 1;
            check_input(out, e, &v, emit_mask_for(v.len(), counter, thorough), counter);
        }
    }
}

const ENC_CHARS: [&str; 14] = ["\u{80}", "é", "あ", "\u{1F600}", "\u{1B}", "\u{0E}", "\u{0F}", "\u{FFFD}", "¥", "\u{203E}", "ｶ", "\u{E5E5}", "한", "\u{7F}"];

fn gen_encode(out: &mut Out, rng: &mut Rng, thorough: bool) {
    // operation lines for the model: every input up to 130 bytes, every 8th (thorough: 24th) longer one
    // (the model driver is quadratic in the number of numeric character references of one text)
    let every = if thorough { 24 } else { 8 };
    let mut counter = 0usize;
    let mut run = |out: &mut Out, e: &'static Encoding, s: &str| {
        counter += 1;
        let emit = s.len() <= 130 || counter % every == 0;
        encode_oracles_emit(out, e, s, emit);
    };
    let lens: Vec<usize> = if thorough {
        let mut v: Vec<usize> = (0..=66).collect();
        v.extend_from_slice(&[127, 128, 129, 255, 256, 257, 1000, 1024, 4095, 4096]);
        v
    } else {
        vec![0, 1, 2, 15, 16, 17, 31, 32, 33, 63, 64, 65, 128, 1000, 4096]
    };
    for &e in ALL.iter() {
        for &len in &lens {
            let base = String::from_utf8(ascii_filler(len, len + 1)).unwrap();
            run(out, e, &base);
            for p in 0..64usize {
                if p >= len {
                    break;
                }
                let hi = p + (len - 1 - p) / 64 * 64;
                let mut qs = vec![p];
                if hi != p {
                    qs.push(hi);
                }
                for (qi, &q) in qs.iter().enumerate() {
                    let kinds: Vec<usize> = if thorough {
                        (0..4).map(|j| (p + len + qi + j * 4) % ENC_CHARS.len()).collect()
                    } else {
                        vec![(p + len + qi) % ENC_CHARS.len(), (p * 5 + len + 3) % ENC_CHARS.len()]
                    };
                    for kind in kinds {
                        let c = ENC_CHARS[kind];
                        let mut s = String::with_capacity(len + 8);
                        s.push_str(&base[..q]);
                        match (p + kind) % 3 {
                            0 => {
                                s.push_str(c);
                                if q + c.len() <= len {
                                    s.push_str(&base[q + c.len()..]);
                                }
                            }
                            1 => {
                                while s.len() < len {
                                    s.push_str(c);
                                }
                            }
                            _ => {
                                s.push_str(c);
                                while s.len() < len {
                                    s.push_str(*rng.pick(&ENC_CHARS));
                                    s.push('x');
                                }
                            }
                        }
                        run(out, e, &s);
                    }
                }
            }
        }
        let per = if thorough { 1500 } else { 150 };
        let pool: Vec<char> = "Aé ß Ω я ש ع ก 中文 かな ｶﾅ 한글 €¥‾−\u{3000}〜\u{E5E5}\u{1F4A9}\u{20000} \u{0E}\u{0F}\u{1B}\u{FFFD}\u{80}\u{A0}".chars().collect();
        for i in 0..per {
            let n = rng.below(if i % 4 == 0 { 300 } else { 24 });
            let head = rng.below(40);
            let mut s = String::from_utf8(ascii_filler(if i % 3 == 0 { head } else { 0 }, i)).unwrap();
            for _ in 0..n {
                if rng.chance(1, 3) {
                    s.push(*rng.pick(&pool));
                } else {
                    s.push((0x20 + rng.below(0x5F) as u8) as char);
                }
            }
            run(out, e, &s);
        }
    }
}

pub fn generate(prop: &str, out: &mut Out, thorough: bool, seed: u64) -> bool {
    if prop != "C11" && prop != "C09" {
        return false;
    }
    let mut rng = Rng::new(seed ^ 0xC11_0000);
    if prop == "C09" {
        C09_MODE.store(true, std::sync::atomic::Ordering::Relaxed);
        gen_decode(out, &mut rng, thorough);
        C09_MODE.store(false, std::sync::atomic::Ordering::Relaxed);
        return true;
    }
    gen_decode(out, &mut rng, thorough);
    gen_encode(out, &mut rng, thorough);
    true
}

pub fn replay(toks: &[&str], out: &mut Out) -> bool {
    match toks[0] {
        "oneshot" => {
            if toks.len() == 4 {
                if let (Some(e), Some(f)) = (enc_by_ident(toks[1]), Func::parse(toks[2])) {
                    let input = unhex(toks[3]);
                    with_exact(&input, 0, |inp| {
                        let r = run_oneshot(e, f, inp);
                        out.op(op_lhs(e, f, inp), op_rhs(&r));
                        decode_oracles(out, e, f, inp, &r);
                    });
                }
            }
            true
        }
        "oneshotenc" => {
            if toks.len() == 3 {
                if let Some(e) = enc_by_ident(toks[1]) {
                    let b = unhex(toks[2]);
                    if let Ok(s) = String::from_utf8(b) {
                        encode_oracles(out, e, &s);
                    }
                }
            }
            true
        }
        _ => false,
    }
}
