//! C17: observable behaviour is identical across build configurations.
//!
//! The SAME deterministic corpus is produced by harness binaries built with the
//! cargo feature sets `default`, `lessslow` (less-slow-kanji/big5/gb-hanzi-encode),
//! `fast` (fast-legacy-encode) and `simd` (simd-accel + std, nightly).  Every line
//! is an operation line of an existing kind (checked against the ONE
//! configuration-independent Lean model by the driver); `./check C17` additionally
//! compares the operation files of the configurations byte for byte.
//!
//! Sections, in this order (the exhaustive ones do not depend on the seed):
//!   1. `encchar   <ENC> <hex scalar>[,…]      => …`  every scalar of the class set (quick) / every scalar
//!      value (thorough) through every encoder from UTF-8 (`encchar::encode_chars`)
//!   2. `encchar16 <ENC> <hex16 units>         => …`  the same characters from UTF-16
//!      (`encode_from_utf16_without_replacement`), plus four lone surrogates per encoder
//!   3. `dec …` every 0-, 1- and 2-byte string over a 64-byte class alphabet (quick) / over all 256
//!      bytes (thorough) through every decoder, one chunk, `last = true`, both sinks
//!   4. `valid utf8 <0|1> 0 <hex>` a fixed family of buffers around the 64-byte threshold of the
//!      SIMD validator with `verif_force_scalar_utf8` off and on (both lines always written)
//!   5. the generators of C14 (`valid`), C15 (`mem`), C16 (`cls*`), C02 (`dec`), C04 (`enc`)
//!      with the C17 seed.
//!
//! Oracle failures of the borrowed generators are reported under THEIR property
//! names (C14, C15, …) and therefore not counted by `./check C17`: C17 is about the
//! logical results (the operation lines) being the same everywhere.
use crate::dec::{self, Bom, Plan, ALL};
use crate::util::*;
use crate::{cls, enc, encchar, memconv, valid};
use encoding_rs::{EncoderResult, Encoding};

/// `encchar::encode_chars` for a UTF-16 source
pub fn encode_units(e: &'static Encoding, units: &[u16]) -> String {
    let units = units.to_vec();
    let r = catch(move || {
        let mut enc = e.new_encoder();
        let mut src: &[u16] = &units;
        let mut out: Vec<u8> = Vec::new();
        let mut rounds = 0;
        loop {
            let mut dst = [0u8; 16];
            let (r, read, written) = enc.encode_from_utf16_without_replacement(src, &mut dst, true);
            out.extend_from_slice(&dst[..written]);
            src = &src[read..];
            match r {
                EncoderResult::InputEmpty => return hex(&out),
                EncoderResult::OutputFull => {
                    rounds += 1;
                    if rounds > 8 {
                        return "STUCK".to_string();
                    }
                }
                EncoderResult::Unmappable(u) => {
                    return if out.is_empty() {
                        format!("U{:x}", u as u32)
                    } else {
                        format!("U{:x}:{}", u as u32, hex(&out))
                    };
                }
            }
        }
    });
    match r {
        Ok(s) => s,
        Err(_) => "P".to_string(),
    }
}

/// characters that put the ISO-2022-JP encoder into its Roman / JIS X 0208 state
const ISO_2022_JP_PREFIXES: [char; 2] = ['\u{A5}', '\u{3042}'];

fn emit8(out: &mut Out, id: &str, e: &'static Encoding, ch: char) {
    let mut buf = [0u8; 4];
    out.op(format!("encchar {} {:x}", id, ch as u32), encchar::encode_chars(e, ch.encode_utf8(&mut buf)));
    if e == encoding_rs::ISO_2022_JP {
        for p in ISO_2022_JP_PREFIXES {
            let s: String = [p, ch].iter().collect();
            out.op(format!("encchar {} {:x},{:x}", id, p as u32, ch as u32), encchar::encode_chars(e, &s));
        }
    }
}

fn emit16(out: &mut Out, id: &str, e: &'static Encoding, ch: char) {
    let mut buf = [0u16; 2];
    let u = ch.encode_utf16(&mut buf);
    out.op(format!("encchar16 {} {}", id, hex16(u)), encode_units(e, u));
    if e == encoding_rs::ISO_2022_JP {
        for p in ISO_2022_JP_PREFIXES {
            let mut v: Vec<u16> = vec![p as u16];
            v.extend_from_slice(u);
            out.op(format!("encchar16 {} {}", id, hex16(&v)), encode_units(e, &v));
        }
    }
}

/// constants of the encoder bodies and of the feature-gated lookups (range ends, special cases)
const EDGES: &[u32] = &[
    0x00, 0x0E, 0x0F, 0x1B, 0x3B, 0x3C, 0x5C, 0x7E, 0x7F, 0x80, 0xA0, 0xA1, 0xA4, 0xA5, 0xAA, 0xE0, 0xF7, 0xFF, 0x0168,
    0x0262, 0x02C7, 0x02C9, 0x02CA, 0x02D9, 0x02DA, 0x02DD, 0x0391, 0x0401, 0x0451, 0x1E3F, 0x2010, 0x2014, 0x2015,
    0x203E, 0x20AC, 0x2160, 0x2170, 0x2179, 0x2212, 0x2460, 0x2500, 0x254C, 0x266D, 0x2E81, 0x2ECA, 0x3000, 0x3002,
    0x3015, 0x3017, 0x3041, 0x3093, 0x30A1, 0x30F6, 0x321C, 0x33D8, 0x33DE, 0x3400, 0x4491, 0x4E00, 0x4E5A, 0x4EDD,
    0x5188, 0x5202, 0x72DC, 0x9F9D, 0x9FA0, 0x9FA5, 0x9FA6, 0x9FB0, 0x9FB1, 0x9FB4, 0x9FBB, 0xA000, 0xAC00, 0xC8A5,
    0xD7A3, 0xD7A4, 0xD7FF, 0xE000, 0xE234, 0xE4C5, 0xE5E5, 0xE757, 0xE78D, 0xE796, 0xE7C7, 0xE810, 0xE814, 0xE816,
    0xE81E, 0xE826, 0xE82B, 0xE82C, 0xE832, 0xE843, 0xE854, 0xE855, 0xE864, 0xF780, 0xF7FF, 0xF900, 0xF929, 0xF9DC,
    0xFA0C, 0xFA0D, 0xFA0E, 0xFA2D, 0xFB00, 0xFE17, 0xFF01, 0xFF04, 0xFF3C, 0xFF61, 0xFF66, 0xFF70, 0xFF9D, 0xFF9F,
    0xFFE1, 0xFFE5, 0xFFFD, 0xFFFF, 0x10000, 0x1FFFF, 0x20000, 0x2008A, 0x200CC, 0x27607, 0x2F8A6, 0x2FFFF, 0x10FFFF,
];

/// the quick class set (about 6 400 scalar values): the first 0x500 code points, every edge +-2,
/// every 17th BMP code point (1 235 unified ideographs, 657 hangul syllables), every 4099th astral one,
/// plus 1 000 seeded ideographs/hangul and 300 seeded others.  Sorted, without repetitions.
fn class_set(seed: u64) -> Vec<char> {
    let mut v: Vec<u32> = (0..0x500u32).collect();
    for &x in EDGES {
        for d in 0..5u32 {
            v.push((x + d).saturating_sub(2));
        }
    }
    let mut c = 0x500u32;
    while c < 0x10000 {
        v.push(c);
        c += 17;
    }
    let mut c = 0x10000u32;
    while c <= 0x10FFFF {
        v.push(c);
        c += 4099;
    }
    let mut rng = Rng::new(seed ^ 0xC17);
    for _ in 0..700 {
        v.push(0x4E00 + rng.below(0x9FB2 - 0x4E00) as u32);
    }
    for _ in 0..300 {
        v.push(0xAC00 + rng.below(0xD7A4 - 0xAC00) as u32);
    }
    for _ in 0..200 {
        v.push(rng.below(0x10000) as u32);
    }
    for _ in 0..100 {
        v.push(0x10000 + rng.below(0x100000) as u32);
    }
    v.sort_unstable();
    v.dedup();
    v.into_iter().filter_map(char::from_u32).collect()
}

const LONE_SURROGATES: [u16; 4] = [0xD800, 0xDBFF, 0xDC00, 0xDFFF];

fn gen_encoders(out: &mut Out, thorough: bool, seed: u64) {
    let quick_set = if thorough { Vec::new() } else { class_set(seed) };
    for &e in ALL.iter() {
        let id = ident(e);
        if thorough {
            for c in 0..=0x10FFFFu32 {
                if let Some(ch) = char::from_u32(c) {
                    emit8(out, &id, e, ch);
                }
            }
        } else {
            for &ch in &quick_set {
                emit8(out, &id, e, ch);
            }
        }
    }
    for &e in ALL.iter() {
        let id = ident(e);
        if thorough {
            for c in 0..=0x10FFFFu32 {
                if let Some(ch) = char::from_u32(c) {
                    emit16(out, &id, e, ch);
                }
            }
        } else {
            for &ch in &quick_set {
                emit16(out, &id, e, ch);
            }
        }
        for s in LONE_SURROGATES {
            out.op(format!("encchar16 {} {}", id, hex16(&[s])), encode_units(e, &[s]));
        }
    }
}

/// 64 bytes: every class boundary of the lead / trail tests of the multi-byte decoders, the
/// ISO-2022-JP escape alphabet, BOM bytes, ASCII representatives
const BYTE_CLASSES: [u8; 64] = [
    0x00, 0x0E, 0x0F, 0x1B, 0x20, 0x21, 0x24, 0x28, 0x29, 0x2F, 0x30, 0x39, 0x3A, 0x3F, 0x40, 0x41, 0x42, 0x49, 0x4A,
    0x5A, 0x5C, 0x61, 0x7E, 0x7F, 0x80, 0x81, 0x84, 0x87, 0x8E, 0x8F, 0x90, 0x9F, 0xA0, 0xA1, 0xA2, 0xA3, 0xA6, 0xA7,
    0xA8, 0xB0, 0xBB, 0xBF, 0xC0, 0xC2, 0xC6, 0xC8, 0xC9, 0xD8, 0xDF, 0xE0, 0xE3, 0xED, 0xEF, 0xF0, 0xF4, 0xF7, 0xF8,
    0xF9, 0xFA, 0xFC, 0xFD, 0xFE, 0xFF, 0x7D,
];

fn gen_decoders(out: &mut Out, thorough: bool) {
    let alphabet: Vec<u8> = if thorough { (0..=255u8).collect() } else { BYTE_CLASSES.to_vec() };
    for &e in ALL.iter() {
        let mut streams: Vec<Vec<u8>> = vec![vec![]];
        for b in 0..=255u8 {
            streams.push(vec![b]);
        }
        for &a in &alphabet {
            for &b in &alphabet {
                streams.push(vec![a, b]);
            }
        }
        for stream in streams {
            for sink16 in [false, true] {
                let n = stream.len();
                let p = Plan { enc: e, bom: Bom::Off, sink16, repl: false, stream: stream.clone(), cuts: vec![n], caps: vec![64], skip: false };
                // no oracles here: the line is what is compared
                dec::emit(out, &p, &[]);
            }
        }
    }
}

/// stride regime (added after the seeded defect C17_2 was found to be caught only by luck of the seed: a changed comparison
/// constant in the `simd-accel` kernel of the x-user-defined decoder, visible only for byte 0x80 *inside a full 16-byte
/// stride*): every byte value at positions around the stride boundaries of a 40-byte buffer of ASCII letters / ASCII
/// punctuation (the single-byte decoders treat bytes below 60 differently), through every decoder into both sinks
fn gen_decoder_strides(out: &mut Out, thorough: bool) {
    let positions: &[usize] = if thorough { &[0, 1, 5, 7, 8, 15, 16, 17, 24, 31, 32, 33, 39] } else { &[0, 7, 15, 16, 17, 31, 33] };
    for &e in ALL.iter() {
        for filler in [b'a', b' '] {
            for b in 0..=255u8 {
                if b == filler {
                    continue;
                }
                for &pos in positions {
                    let mut stream = vec![filler; 40];
                    stream[pos] = b;
                    for sink16 in [false, true] {
                        let p = Plan { enc: e, bom: Bom::Off, sink16, repl: false, stream: stream.clone(), cuts: vec![40], caps: vec![160], skip: false };
                        dec::emit(out, &p, &[]);
                    }
                }
            }
        }
    }
}

/// the same for the encoders, from UTF-16: every unit of 0..=0x17F, the x-user-defined range and its neighbours, and a few
/// boundary units, at positions around the stride boundary of a 24-unit buffer of ASCII letters
fn gen_encoder_strides(out: &mut Out, thorough: bool) {
    let positions: &[usize] = if thorough { &[0, 1, 7, 8, 14, 15, 16, 17, 23] } else { &[0, 7, 15, 16, 23] };
    let mut units: Vec<u16> = (0..=0x17Fu16).collect();
    units.extend(0xF77Eu16..=0xF801);
    units.extend([0x7FF, 0x800, 0x3042, 0x4E00, 0xAC00, 0xD7FF, 0xE000, 0xFFFD, 0xFFFF]);
    for &e in ALL.iter() {
        if e.output_encoding() != e {
            continue;
        }
        let id = ident(e);
        for &u in &units {
            if u == b'a' as u16 {
                continue;
            }
            for &pos in positions {
                let mut v = vec![b'a' as u16; 24];
                v[pos] = u;
                out.op(format!("encchar16 {} {}", id, hex16(&v)), encode_units(e, &v));
            }
        }
    }
}

/// both validator paths, always both lines: ASCII / two- / three- / four-byte text of 56..=136
/// bytes (the SIMD validator is taken from 64 bytes on), intact and with one defect planted at
/// every 7th position
fn gen_validator_paths(out: &mut Out, thorough: bool) {
    let fillers: [&[u8]; 4] = [b"a", &[0xC3, 0xA9], &[0xE3, 0x81, 0x82], &[0xF0, 0x9F, 0x98, 0x80]];
    let defects: [&[u8]; 6] = [&[0x80], &[0xC0, 0x80], &[0xE0, 0x80, 0x80], &[0xED, 0xA0, 0x80], &[0xF4, 0x90, 0x80, 0x80], &[0xE3, 0x81]];
    let step = if thorough { 1 } else { 7 };
    for f in fillers {
        for len in 56..=136usize {
            let mut base: Vec<u8> = Vec::new();
            while base.len() + f.len() <= len {
                base.extend_from_slice(f);
            }
            while base.len() < len {
                base.push(b'z');
            }
            let mut bufs: Vec<Vec<u8>> = vec![base.clone()];
            if thorough || len % 4 == 0 {
                for (di, d) in defects.iter().enumerate() {
                    let mut pos = di % step;
                    while pos + d.len() <= len {
                        let mut v = base.clone();
                        v[pos..pos + d.len()].copy_from_slice(d);
                        bufs.push(v);
                        pos += step * 3;
                    }
                }
            }
            for b in bufs {
                let h = hex(&b);
                for force in ["0", "1"] {
                    valid::replay(&["valid", "utf8", force, "0", &h], out);
                }
            }
        }
    }
}

pub fn generate(prop: &str, out: &mut Out, thorough: bool, seed: u64) -> bool {
    if prop != "C17" {
        return false;
    }
    if std::env::var("VERIF_SEARCH").is_ok() {
        // search for a failing input after a proof obligation about a gated table broke: every scalar value of
        // the BMP and of plane 2 through the seven legacy multi-byte encoders (the only ones with gated
        // encode tables), from UTF-8; the check compares the files of the configurations
        for &e in ALL.iter() {
            if e.is_single_byte() || e.output_encoding() == encoding_rs::UTF_8 {
                continue;
            }
            let id = ident(e);
            for c in (0..=0xFFFFu32).chain(0x20000..=0x2FFFF) {
                if let Some(ch) = char::from_u32(c) {
                    emit8(out, &id, e, ch);
                }
            }
        }
        return true;
    }
    gen_encoders(out, thorough, seed);
    gen_decoders(out, thorough);
    gen_decoder_strides(out, thorough);
    gen_encoder_strides(out, thorough);
    gen_validator_paths(out, thorough);
    valid::generate("C14", out, thorough, seed);
    memconv::generate("C15", out, thorough, seed);
    cls::generate("C16", out, thorough, seed);
    dec::generate("C02", out, thorough, seed);
    enc::generate("C04", out, thorough, seed);
    true
}

pub fn replay(toks: &[&str], out: &mut Out) -> bool {
    if toks.len() != 3 || toks[0] != "encchar16" {
        return false;
    }
    let e = match dec::enc_by_ident(toks[1]) {
        Some(e) => e,
        None => return false,
    };
    if toks[2] == "." || toks[2].len() % 4 != 0 || !toks[2].bytes().all(|b| b.is_ascii_hexdigit()) {
        return false;
    }
    let units = unhex16(toks[2]);
    out.op(toks.join(" "), encode_units(e, &units));
    true
}
