//! Streaming decoder histories: C02 (chunking independence), C05 (well-formed
//! output), C06 (bounds / no panic), C08 (progress), C09 (replacement = manual
//! procedure), C10 (BOM handling), C18 (independence of old buffer contents).
//!
//! Operation line (see lean/Driver/Ops/Dec.lean):
//!   dec <ENC> <off|sniff|remove> <u8|u16> <raw|repl> <hex stream> <call>;<call>;… => ok <ENC at end>
use crate::util::*;
use encoding_rs::*;

pub static ALL: [&'static Encoding; 40] = [
    BIG5, EUC_JP, EUC_KR, GBK, IBM866, ISO_2022_JP, ISO_8859_10, ISO_8859_13, ISO_8859_14, ISO_8859_15,
    ISO_8859_16, ISO_8859_2, ISO_8859_3, ISO_8859_4, ISO_8859_5, ISO_8859_6, ISO_8859_7, ISO_8859_8,
    ISO_8859_8_I, KOI8_R, KOI8_U, SHIFT_JIS, UTF_16BE, UTF_16LE, UTF_8, GB18030, MACINTOSH, REPLACEMENT,
    WINDOWS_1250, WINDOWS_1251, WINDOWS_1252, WINDOWS_1253, WINDOWS_1254, WINDOWS_1255, WINDOWS_1256,
    WINDOWS_1257, WINDOWS_1258, WINDOWS_874, X_MAC_CYRILLIC, X_USER_DEFINED,
];

pub fn enc_by_ident(id: &str) -> Option<&'static Encoding> {
    ALL.iter().copied().find(|e| ident(e) == id)
}

#[derive(Clone, Copy, PartialEq, Eq, Debug)]
pub enum Bom {
    Off,
    Sniff,
    Remove,
}

impl Bom {
    pub fn name(self) -> &'static str {
        match self {
            Bom::Off => "off",
            Bom::Sniff => "sniff",
            Bom::Remove => "remove",
        }
    }
    pub fn parse(s: &str) -> Bom {
        match s {
            "off" => Bom::Off,
            "sniff" => Bom::Sniff,
            _ => Bom::Remove,
        }
    }
}

pub fn new_decoder(e: &'static Encoding, bom: Bom) -> Decoder {
    match bom {
        Bom::Off => e.new_decoder_without_bom_handling(),
        Bom::Sniff => e.new_decoder(),
        Bom::Remove => e.new_decoder_with_bom_removal(),
    }
}

#[derive(Clone, Debug, PartialEq, Eq)]
pub enum Res {
    InputEmpty,
    OutputFull,
    Malformed(u8, u8),
    Panic(String),
}

impl Res {
    pub fn show(&self) -> String {
        match self {
            Res::InputEmpty => "I".into(),
            Res::OutputFull => "O".into(),
            Res::Malformed(l, a) => format!("M{}.{}", l, a),
            Res::Panic(_) => "P".into(),
        }
    }
}

#[derive(Clone, Debug)]
pub struct CallRec {
    pub n: usize,
    pub cap: usize,
    pub last: bool,
    pub res: Res,
    pub read: usize,
    pub units8: Vec<u8>,
    pub units16: Vec<u16>,
    pub had_errors: Option<bool>,
    /// latin1_byte_compatible_up_to(src) asked just before the call
    pub lc: Option<Option<usize>>,
    /// max_utf8_buffer_length / …_without_replacement / max_utf16_buffer_length for `n`, before the call
    pub q: Option<(Option<usize>, Option<usize>, Option<usize>)>,
    /// the same three queries for a byte count near the overflow thresholds: (n, utf8, utf8 w/o repl, utf16)
    pub qx: Option<(usize, Option<usize>, Option<usize>, Option<usize>)>,
    /// bytes of the guard bands / tail beyond `written` that were modified (C06/C18 oracles)
    pub guard_broken: bool,
}

const GUARD: usize = 8;

/// One call on the real decoder with an exact-size destination embedded between
/// guard bands, pre-filled with `fill`.
pub fn one_call(
    d: &mut Decoder,
    sink16: bool,
    repl: bool,
    src: &[u8],
    cap: usize,
    last: bool,
    fill: u8,
    align: usize,
) -> CallRec {
    let mut rec = CallRec {
        n: src.len(),
        cap,
        last,
        res: Res::InputEmpty,
        read: 0,
        units8: Vec::new(),
        units16: Vec::new(),
        had_errors: None,
        lc: None,
        q: None,
        qx: None,
        guard_broken: false,
    };
    {
        let dref = std::panic::AssertUnwindSafe(&*d);
        let n = crate::util::big_n(src.len() * 7 + cap % 36 + (last as usize));
        if let Ok(v) = catch(move || (dref.max_utf8_buffer_length(n), dref.max_utf8_buffer_length_without_replacement(n), dref.max_utf16_buffer_length(n))) {
            rec.qx = Some((n, v.0, v.1, v.2));
        }
    }
    {
        let dref = std::panic::AssertUnwindSafe(&*d);
        let n = src.len();
        if let Ok(v) = catch(move || (dref.max_utf8_buffer_length(n), dref.max_utf8_buffer_length_without_replacement(n), dref.max_utf16_buffer_length(n))) {
            rec.q = Some(v);
        }
    }
    {
        let dref = std::panic::AssertUnwindSafe(&*d);
        let srcv = src.to_vec();
        if let Ok(v) = catch(move || dref.latin1_byte_compatible_up_to(&srcv)) {
            rec.lc = Some(v);
        }
    }
    // source copied to an exact-size heap allocation at the requested alignment offset
    let mut src_store = vec![0u8; src.len() + 16];
    let so = align % 16;
    src_store[so..so + src.len()].copy_from_slice(src);
    let src_exact: &[u8] = &src_store[so..so + src.len()];
    if sink16 {
        let fill16 = u16::from(fill) << 8 | u16::from(fill);
        let mut buf = vec![fill16; cap + 2 * GUARD + 8];
        let off = GUARD + (align % 8);
        let r = {
            let dst = &mut buf[off..off + cap];
            let dref = std::panic::AssertUnwindSafe(&mut *d);
            let dst = std::panic::AssertUnwindSafe(dst);
            catch(move || {
                let mut dref = dref;
                let mut dst = dst;
                if repl {
                    let (r, rd, wr, he) = dref.decode_to_utf16(src_exact, &mut dst, last);
                    (
                        match r {
                            CoderResult::InputEmpty => Res::InputEmpty,
                            CoderResult::OutputFull => Res::OutputFull,
                        },
                        rd,
                        wr,
                        Some(he),
                    )
                } else {
                    let (r, rd, wr) = dref.decode_to_utf16_without_replacement(src_exact, &mut dst, last);
                    (
                        match r {
                            DecoderResult::InputEmpty => Res::InputEmpty,
                            DecoderResult::OutputFull => Res::OutputFull,
                            DecoderResult::Malformed(l, a) => Res::Malformed(l, a),
                        },
                        rd,
                        wr,
                        None,
                    )
                }
            })
        };
        match r {
            Ok((res, rd, wr, he)) => {
                rec.res = res;
                rec.read = rd;
                rec.had_errors = he;
                let w = wr.min(cap);
                rec.units16 = buf[off..off + w].to_vec();
                if wr > cap {
                    rec.guard_broken = true;
                }
            }
            Err(m) => rec.res = Res::Panic(m),
        }
        for (i, u) in buf.iter().enumerate() {
            if (i < off || i >= off + cap) && *u != fill16 {
                rec.guard_broken = true;
            }
        }
    } else {
        let mut buf = vec![fill; cap + 2 * GUARD + 16];
        let off = GUARD + (align % 16);
        let r = {
            let dst = &mut buf[off..off + cap];
            let dref = std::panic::AssertUnwindSafe(&mut *d);
            let dst = std::panic::AssertUnwindSafe(dst);
            catch(move || {
                let mut dref = dref;
                let mut dst = dst;
                if repl {
                    let (r, rd, wr, he) = dref.decode_to_utf8(src_exact, &mut dst, last);
                    (
                        match r {
                            CoderResult::InputEmpty => Res::InputEmpty,
                            CoderResult::OutputFull => Res::OutputFull,
                        },
                        rd,
                        wr,
                        Some(he),
                    )
                } else {
                    let (r, rd, wr) = dref.decode_to_utf8_without_replacement(src_exact, &mut dst, last);
                    (
                        match r {
                            DecoderResult::InputEmpty => Res::InputEmpty,
                            DecoderResult::OutputFull => Res::OutputFull,
                            DecoderResult::Malformed(l, a) => Res::Malformed(l, a),
                        },
                        rd,
                        wr,
                        None,
                    )
                }
            })
        };
        match r {
            Ok((res, rd, wr, he)) => {
                rec.res = res;
                rec.read = rd;
                rec.had_errors = he;
                let w = wr.min(cap);
                rec.units8 = buf[off..off + w].to_vec();
                if wr > cap {
                    rec.guard_broken = true;
                }
            }
            Err(m) => rec.res = Res::Panic(m),
        }
        for (i, u) in buf.iter().enumerate() {
            if (i < off || i >= off + cap) && *u != fill {
                rec.guard_broken = true;
            }
        }
    }
    rec
}

#[derive(Clone, Debug)]
pub struct Plan {
    pub enc: &'static Encoding,
    pub bom: Bom,
    pub sink16: bool,
    pub repl: bool,
    pub stream: Vec<u8>,
    /// chunk end positions, non-decreasing, last == stream.len(); repeated values = empty chunks
    pub cuts: Vec<usize>,
    /// capacities used cyclically, one per call; the value `QUERY_CAP` means "whatever the matching
    /// max_*_buffer_length* query returns for this call" (C07)
    pub caps: Vec<usize>,
    /// after a `Malformed` that consumed the whole chunk (not the last one) go straight to the
    /// next chunk instead of first calling again with the empty remainder
    pub skip: bool,
}

pub const QUERY_CAP: usize = usize::MAX;

pub fn min_cap(sink16: bool) -> usize {
    if sink16 {
        2
    } else {
        4
    }
}

pub struct Outcome {
    pub calls: Vec<CallRec>,
    pub final_enc: &'static Encoding,
    pub aborted: Option<String>,
}

/// The documented caller loop.
pub fn run_plan(p: &Plan, fill: u8) -> Outcome {
    run_plan_ex(p, fill, false)
}

/// Does the operation line of this plan get one more call after the caller loop has ended normally (a
/// call on a decoder that has seen `last` and returned `InputEmpty` must panic; the model's `finished`
/// state)?  Decided by the plan alone, so that replays reproduce the line.
pub fn pokes_finished(p: &Plan) -> bool {
    (p.stream.len() + p.cuts.len() + p.caps.len() + p.caps[0] % 7) % 4 == 0
}

/// `poke`: after the loop has ended without a panic, call once more (empty source, `last`) and record the call
pub fn run_plan_ex(p: &Plan, fill: u8, poke: bool) -> Outcome {
    let mut d = new_decoder(p.enc, p.bom);
    let mut calls = Vec::new();
    let mut start = 0usize;
    let mut capi = 0usize;
    let limit = 6 * p.stream.len() + 40 + 4 * p.cuts.len();
    let mut aborted = None;
    'chunks: for (ci, &end) in p.cuts.iter().enumerate() {
        let last = ci + 1 == p.cuts.len();
        let chunk = &p.stream[start..end];
        let mut off = 0usize;
        let mut stuck = 0;
        loop {
            let mut cap = p.caps[capi % p.caps.len()];
            capi += 1;
            if cap == QUERY_CAP {
                let n = chunk.len() - off;
                let q = if p.sink16 {
                    d.max_utf16_buffer_length(n)
                } else if p.repl {
                    d.max_utf8_buffer_length(n)
                } else {
                    d.max_utf8_buffer_length_without_replacement(n)
                };
                cap = q.unwrap_or(1 << 20);
            }
            if stuck >= 2 && cap < min_cap(p.sink16) {
                cap = min_cap(p.sink16);
            }
            let rec = one_call(&mut d, p.sink16, p.repl, &chunk[off..], cap, last, fill, capi);
            let res = rec.res.clone();
            let progress = rec.read > 0 || !rec.units8.is_empty() || !rec.units16.is_empty();
            off += rec.read.min(chunk.len() - off);
            calls.push(rec);
            match res {
                Res::Panic(_) => {
                    aborted = Some("panic".into());
                    break 'chunks;
                }
                Res::InputEmpty => break,
                Res::OutputFull => {
                    if progress {
                        stuck = 0
                    } else {
                        stuck += 1
                    }
                }
                Res::Malformed(_, _) => {
                    if p.skip && !last && off == chunk.len() {
                        break;
                    }
                }
            }
            if calls.len() > limit {
                aborted = Some("call-limit".into());
                break 'chunks;
            }
        }
        start = end;
    }
    let final_enc = d.encoding();
    if poke && aborted.is_none() {
        let rec = one_call(&mut d, p.sink16, p.repl, &[], min_cap(p.sink16), true, fill, capi);
        calls.push(rec);
    }
    Outcome { calls, final_enc, aborted }
}

pub fn show_calls(calls: &[CallRec], sink16: bool) -> String {
    if calls.is_empty() {
        return ".".into();
    }
    calls
        .iter()
        .map(|c| {
            let mut s = format!(
                "n={},c={},l={},r={},rd={},w={}",
                c.n,
                c.cap,
                if c.last { 1 } else { 0 },
                c.res.show(),
                c.read,
                if sink16 { hex16(&c.units16) } else { hex(&c.units8) }
            );
            if let Some(he) = c.had_errors {
                s.push_str(&format!(",he={}", if he { 1 } else { 0 }));
            }
            if let Some(lc) = c.lc {
                match lc {
                    Some(n) => s.push_str(&format!(",lc={}", n)),
                    None => s.push_str(",lc=-"),
                }
            }
            if let Some((a, b, cc)) = c.q {
                let f = |x: Option<usize>| x.map(|v| v.to_string()).unwrap_or_else(|| "-".into());
                s.push_str(&format!(",q={}/{}/{}", f(a), f(b), f(cc)));
            }
            if let Some((n, a, b, cc)) = c.qx {
                let f = |x: Option<usize>| x.map(|v| v.to_string()).unwrap_or_else(|| "-".into());
                s.push_str(&format!(",qx={}:{}/{}/{}", n, f(a), f(b), f(cc)));
            }
            s
        })
        .collect::<Vec<_>>()
        .join(";")
}

pub fn op_lhs(p: &Plan, calls: &[CallRec]) -> String {
    format!(
        "dec {} {} {} {} {} {}",
        ident(p.enc),
        p.bom.name(),
        if p.sink16 { "u16" } else { "u8" },
        if p.repl { "repl" } else { "raw" },
        hex(&p.stream),
        show_calls(calls, p.sink16)
    )
}

/// A plan line without results, for replays: cuts and caps instead of call records.
pub fn plan_lhs(p: &Plan) -> String {
    format!(
        "decplan {} {} {} {} {} {} {}{}",
        ident(p.enc),
        p.bom.name(),
        if p.sink16 { "u16" } else { "u8" },
        if p.repl { "repl" } else { "raw" },
        hex(&p.stream),
        nats(&p.cuts),
        nats(&p.caps),
        if p.skip { " skip" } else { "" }
    )
}

/// Summary of what a history said about the stream.
#[derive(PartialEq, Eq, Debug, Clone)]
pub struct Summary {
    pub scalars: Vec<u32>,
    /// absolute (start, len) of malformed sequences (raw mode only)
    pub errors: Vec<(usize, usize)>,
    pub had_errors: bool,
}

pub fn summarize(p: &Plan, o: &Outcome) -> Result<Summary, String> {
    let mut scalars = Vec::new();
    let mut errors = Vec::new();
    let mut had = false;
    let mut consumed = 0usize;
    for c in &o.calls {
        if p.sink16 {
            for r in char::decode_utf16(c.units16.iter().copied()) {
                match r {
                    Ok(ch) => scalars.push(ch as u32),
                    Err(_) => return Err("invalid UTF-16 in one call's output".into()),
                }
            }
        } else {
            match std::str::from_utf8(&c.units8) {
                Ok(s) => scalars.extend(s.chars().map(|c| c as u32)),
                Err(_) => return Err("invalid UTF-8 in one call's output".into()),
            }
        }
        consumed += c.read;
        if let Res::Malformed(l, a) = c.res {
            let end = consumed as isize - a as isize;
            let st = end - l as isize;
            if st < 0 {
                return Err(format!("malformed span starts before the stream: consumed={} len={} after={}", consumed, l, a));
            }
            errors.push((st as usize, l as usize));
            had = true;
        }
        if c.had_errors == Some(true) {
            had = true;
        }
    }
    Ok(Summary { scalars, errors, had_errors: had })
}

fn single_plan(p: &Plan, repl: bool, sink16: bool, bom: Bom) -> Plan {
    let big = p.stream.len() * 4 + 64;
    Plan {
        enc: p.enc,
        bom,
        sink16,
        repl,
        stream: p.stream.clone(),
        cuts: vec![p.stream.len()],
        caps: vec![big],
        skip: false,
    }
}

/// Per-call and whole-history oracles on the implementation itself.
pub fn oracles(out: &mut Out, p: &Plan, o: &Outcome, props: &[&str]) {
    let want = |x: &str| props.contains(&x);
    let lhs = plan_lhs(p);
    out.oracle_evals += 1;
    let minc = min_cap(p.sink16);
    let all_min = o.calls.iter().all(|c| c.cap >= minc);
    // C06: bounds, guard bands, panics
    let mut consumed = 0usize;
    for (i, c) in o.calls.iter().enumerate() {
        if c.guard_broken && want("C06") {
            out.fail("C06", &lhs, format!("call#{} wrote outside its destination (cap={})", i, c.cap));
        }
        if c.read > c.n && want("C06") {
            out.fail("C06", &lhs, format!("call#{} read {} > source length {}", i, c.read, c.n));
        }
        if c.res == Res::InputEmpty && c.read != c.n && want("C06") {
            out.fail("C06", &lhs, format!("call#{} InputEmpty with read {} != {}", i, c.read, c.n));
        }
        if let Res::Panic(m) = &c.res {
            if c.cap >= minc && all_min {
                for pr in ["C06", "C08", "C10"] {
                    if want(pr) {
                        out.fail(pr, &lhs, format!("call#{} panicked with cap={} >= documented minimum: {}", i, c.cap, m));
                    }
                }
            }
        }
        if let Res::Malformed(l, a) = c.res {
            if !(1..=4).contains(&l) || a > 3 || l + a > 6 {
                for pr in ["C01", "C06"] {
                    if want(pr) {
                        out.fail(pr, &lhs, format!("call#{} Malformed({}, {}) out of the documented range", i, l, a));
                    }
                }
            }
            let w = if p.sink16 { c.units16.len() } else { c.units8.len() };
            let room = if p.sink16 { 1 } else { 3 };
            if w + room > c.cap && c.cap >= minc && want("C06") {
                out.fail("C06", &lhs, format!("call#{} Malformed leaves no room for U+FFFD (written={} cap={})", i, w, c.cap));
            }
        }
        // C08: progress
        if c.res == Res::OutputFull && c.cap >= minc {
            let w = if p.sink16 { c.units16.len() } else { c.units8.len() };
            if c.read == 0 && w == 0 && want("C08") {
                out.fail("C08", &lhs, format!("call#{} OutputFull without progress (cap={})", i, c.cap));
            }
        }
        consumed += c.read;
    }
    let _ = consumed;
    // C07: a destination as large as the matching query never yields OutputFull
    if want("C07") && p.caps.iter().all(|&c| c == QUERY_CAP) {
        for (i, c) in o.calls.iter().enumerate() {
            if c.res == Res::OutputFull {
                out.fail("C07", &lhs, format!("call#{} OutputFull although cap={} is the value of the matching max_*_buffer_length* query for {} bytes", i, c.cap, c.n));
            }
        }
    }
    // C19: latin1_byte_compatible_up_to is exact (checked against fresh decoders: it
    // answers Some only in a neutral state, where a fresh decoder behaves identically)
    if want("C19") {
        let mut pos = 0usize;
        let mut cur_enc = p.enc;
        for (i, c) in o.calls.iter().enumerate() {
            let src = &p.stream[pos.min(p.stream.len())..(pos + c.n).min(p.stream.len())];
            if let Some(Some(n)) = c.lc {
                if n > src.len() {
                    out.fail("C19", &lhs, format!("call#{} latin1_byte_compatible_up_to = {} > buffer length {}", i, n, src.len()));
                } else {
                    // which encoding is the decoder using now? (after a BOM switch the harness cannot
                    // see it before the end; use the final encoding once any byte was consumed)
                    if pos > 0 {
                        cur_enc = o.final_enc;
                    }
                    let mut fresh = cur_enc.new_decoder_without_bom_handling();
                    let mut dst = vec![0u16; n + 4];
                    let (r, rd, wr) = fresh.decode_to_utf16_without_replacement(&src[..n], &mut dst, false);
                    let same = r == DecoderResult::InputEmpty && rd == n && wr == n && (0..n).all(|j| dst[j] == u16::from(src[j]));
                    if !same && p.bom == Bom::Off {
                        out.fail("C19", &lhs, format!("call#{} latin1_byte_compatible_up_to = {} but the first {} bytes do not decode to their own values", i, n, n));
                    }
                    // the decoder itself, in its actual state: what this very call then wrote must begin
                    // with exactly those n bytes (a decoder that still owes output - a pending ASCII byte,
                    // a delayed character - is not in a neutral state and must have answered None)
                    if p.sink16 && n > 0 && c.read >= n && c.units16.len() >= n && !matches!(c.res, Res::Panic(_)) {
                        if !(0..n).all(|j| c.units16[j] == u16::from(src[j])) {
                            out.fail("C19", &lhs, format!("call#{} latin1_byte_compatible_up_to = {} but the call on the same buffer did not begin its output with those {} bytes (first units {:04x?})", i, n, n, &c.units16[..n.min(4)]));
                        }
                    }
                    if n < src.len() && p.bom == Bom::Off {
                        let b = src[n];
                        let mut f2 = cur_enc.new_decoder_without_bom_handling();
                        let mut d2 = [0u16; 4];
                        let (r2, _, w2) = f2.decode_to_utf16_without_replacement(&src[n..n + 1], &mut d2, false);
                        let identity = r2 == DecoderResult::InputEmpty && w2 == 1 && d2[0] == u16::from(b);
                        if b < 0x80 && identity {
                            out.fail("C19", &lhs, format!("call#{} latin1_byte_compatible_up_to = {} stops short inside a run of ASCII (byte 0x{:02X} at {} decodes to itself)", i, n, b, n));
                        } else if cur_enc.is_single_byte() && identity {
                            out.fail("C19", &lhs, format!("call#{} latin1_byte_compatible_up_to = {} but byte 0x{:02X} at {} decodes to itself", i, n, b, n));
                        }
                    }
                }
            }
            pos += c.read;
        }
    }
    if all_min {
        if let Some(a) = &o.aborted {
            if a == "call-limit" && want("C08") {
                out.fail("C08", &lhs, format!("caller loop did not terminate within {} calls", o.calls.len()));
            }
        }
        if o.aborted.is_none() && o.calls.len() > 4 * p.stream.len() + 16 + 2 * p.cuts.len() && want("C08") {
            out.fail("C08", &lhs, format!("{} calls for {} bytes ({} chunks)", o.calls.len(), p.stream.len(), p.cuts.len()));
        }
    }
    if o.aborted.is_some() {
        return;
    }
    // C05: every call's output is well-formed on its own
    let sum = match summarize(p, o) {
        Ok(s) => s,
        Err(e) => {
            for pr in ["C05", "C02"] {
                if want(pr) {
                    out.fail(pr, &lhs, e.clone());
                }
            }
            return;
        }
    };
    // C02: same as a single call on the whole stream, same sink
    let sp = single_plan(p, p.repl, p.sink16, p.bom);
    let so = run_plan(&sp, 0);
    if let Ok(ssum) = summarize(&sp, &so) {
        if ssum != sum {
            for pr in ["C02", "C10"] {
                if want(pr) {
                    out.fail(pr, &lhs, format!("chunked history differs from the single call: chunked={:?} single={:?}", brief(&sum), brief(&ssum)));
                }
            }
        }
        if so.final_enc != o.final_enc && want("C10") {
            out.fail("C10", &lhs, format!("encoding() differs: chunked={} single={}", o.final_enc.name(), so.final_enc.name()));
        }
    }
    // C02: the other sink denotes the same scalar values
    let op = single_plan(p, p.repl, !p.sink16, p.bom);
    let oo = run_plan(&op, 0);
    if let Ok(osum) = summarize(&op, &oo) {
        if osum != sum && want("C02") {
            out.fail("C02", &lhs, format!("UTF-8 and UTF-16 sinks disagree: this={:?} other={:?}", brief(&sum), brief(&osum)));
        }
    }
    // C09: replacement mode == manual procedure over the raw API
    if want("C09") {
        let rp = Plan { repl: !p.repl, ..p.clone() };
        let ro = run_plan(&rp, 0);
        if ro.aborted.is_none() {
            if let Ok(rsum) = summarize(&rp, &ro) {
                let (raw, rep) = if p.repl { (&rsum, &sum) } else { (&sum, &rsum) };
                // manual procedure: append U+FFFD at each Malformed
                let (rawp, rawo) = if p.repl { (&rp, &ro) } else { (p, o) };
                let manual = manual_text(rawp, rawo);
                if manual != rep.scalars {
                    out.fail("C09", &lhs, format!("built-in replacement != manual procedure: builtin={:?} manual={:?}", tail(&rep.scalars), tail(&manual)));
                }
                if rep.had_errors != !raw.errors.is_empty() {
                    out.fail("C09", &lhs, format!("had_errors={} but raw API reported {} malformed sequences", rep.had_errors, raw.errors.len()));
                }
            }
        }
    }
    // C10: BOM semantics against decoders without BOM handling
    if want("C10") {
        let (expect_enc, skip) = match p.bom {
            Bom::Off => (p.enc, 0),
            Bom::Sniff => {
                if p.stream.starts_with(b"\xEF\xBB\xBF") {
                    (UTF_8, 3)
                } else if p.stream.starts_with(b"\xFE\xFF") {
                    (UTF_16BE, 2)
                } else if p.stream.starts_with(b"\xFF\xFE") {
                    (UTF_16LE, 2)
                } else {
                    (p.enc, 0)
                }
            }
            Bom::Remove => {
                if p.enc == UTF_8 && p.stream.starts_with(b"\xEF\xBB\xBF") {
                    (UTF_8, 3)
                } else if p.enc == UTF_16BE && p.stream.starts_with(b"\xFE\xFF") {
                    (UTF_16BE, 2)
                } else if p.enc == UTF_16LE && p.stream.starts_with(b"\xFF\xFE") {
                    (UTF_16LE, 2)
                } else {
                    (p.enc, 0)
                }
            }
        };
        let bp = Plan {
            enc: expect_enc,
            bom: Bom::Off,
            sink16: p.sink16,
            repl: p.repl,
            stream: p.stream[skip..].to_vec(),
            cuts: vec![p.stream.len() - skip],
            caps: vec![p.stream.len() * 4 + 64],
            skip: false,
        };
        let bo = run_plan(&bp, 0);
        if let Ok(mut bsum) = summarize(&bp, &bo) {
            for e in bsum.errors.iter_mut() {
                e.0 += skip;
            }
            if bsum != sum {
                out.fail("C10", &lhs, format!("BOM mode {} differs from {} without BOM handling on stream[{}..]: got={:?} want={:?}", p.bom.name(), expect_enc.name(), skip, brief(&sum), brief(&bsum)));
            }
        }
        if o.final_enc != expect_enc {
            // a stream that ends inside a potential BOM never switches
            out.fail("C10", &lhs, format!("encoding() = {} but expected {}", o.final_enc.name(), expect_enc.name()));
        }
        if let Some((e, n)) = Encoding::for_bom(&p.stream) {
            let ok = (p.stream.starts_with(b"\xEF\xBB\xBF") && e == UTF_8 && n == 3)
                || (p.stream.starts_with(b"\xFE\xFF") && e == UTF_16BE && n == 2)
                || (p.stream.starts_with(b"\xFF\xFE") && e == UTF_16LE && n == 2);
            if !ok {
                out.fail("C10", &lhs, format!("for_bom returned ({}, {})", e.name(), n));
            }
        } else if p.stream.starts_with(b"\xEF\xBB\xBF") || p.stream.starts_with(b"\xFE\xFF") || p.stream.starts_with(b"\xFF\xFE") {
            out.fail("C10", &lhs, "for_bom returned None for a BOM".into());
        }
    }
    // C18: same results whatever the destination held before
    if want("C18") {
        for fill in [0xFFu8, 0xA5u8] {
            let o2 = run_plan(p, fill);
            let a = show_calls(&o.calls, p.sink16);
            let b = show_calls(&o2.calls, p.sink16);
            if a != b {
                out.fail("C18", &lhs, format!("results depend on the destination's old contents (fill 0x00 vs 0x{:02X})", fill));
            }
        }
    }
}

fn manual_text(p: &Plan, o: &Outcome) -> Vec<u32> {
    let mut v = Vec::new();
    for c in &o.calls {
        if p.sink16 {
            v.extend(char::decode_utf16(c.units16.iter().copied()).map(|r| r.map(|c| c as u32).unwrap_or(0xFFFD)));
        } else {
            v.extend(String::from_utf8_lossy(&c.units8).chars().map(|c| c as u32));
        }
        if let Res::Malformed(_, _) = c.res {
            v.push(0xFFFD);
        }
    }
    v
}

fn tail(v: &[u32]) -> Vec<u32> {
    v.iter().rev().take(8).rev().copied().collect()
}

fn brief(s: &Summary) -> (usize, Vec<u32>, Vec<(usize, usize)>, bool) {
    (s.scalars.len(), tail(&s.scalars), s.errors.iter().take(6).copied().collect(), s.had_errors)
}

// ---------------------------------------------------------------------------
// generators

/// class-representative bytes common to all encodings
pub const ALPHABET: &[u8] = &[
    0x00, 0x0E, 0x0F, 0x1B, 0x20, 0x24, 0x28, 0x30, 0x35, 0x39, 0x3B, 0x3C, 0x40, 0x41, 0x42, 0x49, 0x4A, 0x5C,
    0x61, 0x7E, 0x7F, 0x80, 0x81, 0x84, 0x8E, 0x8F, 0x90, 0x9F, 0xA0, 0xA1, 0xA4, 0xB0, 0xBB, 0xBF, 0xC0, 0xC1,
    0xC2, 0xC8, 0xD8, 0xDC, 0xDF, 0xE0, 0xED, 0xEF, 0xF0, 0xF4, 0xF5, 0xFC, 0xFD, 0xFE, 0xFF,
];

const SEED_TEXT: &str = "A<b> é ß Ω я ש ع ก 中文字 漢字 かな カナ ｶﾅ 한글 €¥‾−\u{3000}〜\u{E5E5}\u{1F4A9}\u{20000}\u{2A6B2} 龜 \u{00CA}\u{0304} ㈱ ∑ 丂 鷗 \u{E7C7} \u{E78D} \u{FFFD}";

/// a class-representative byte, or (one time in four) a byte that is a comparison constant of the
/// crate's source or one of its neighbours
fn pick_byte(rng: &mut Rng) -> u8 {
    static LOW: std::sync::OnceLock<Vec<u8>> = std::sync::OnceLock::new();
    let low = LOW.get_or_init(|| source_constants().iter().filter(|&&c| c < 0x100).map(|&c| c as u8).collect());
    if !low.is_empty() && rng.chance(1, 4) {
        *rng.pick(low)
    } else {
        *rng.pick(ALPHABET)
    }
}

pub fn gen_stream(rng: &mut Rng, e: &'static Encoding, maxlen: usize) -> Vec<u8> {
    let mut v: Vec<u8> = Vec::new();
    let mode = rng.below(10);
    if (e == UTF_16LE || e == UTF_16BE) && rng.chance(2, 5) {
        // code-unit classes: U+0000 (the value `lead_surrogate == 0` also stands for), ASCII, BMP,
        // lead and trail surrogates in every order, noncharacters, the BOMs; optionally an odd byte
        const UNITS: &[u16] = &[0x0000, 0x0000, 0x0041, 0x00E9, 0x3042, 0xD83D, 0xD83D, 0xDCA9, 0xDCA9, 0xD800, 0xDBFF, 0xDC00, 0xDFFF, 0xFFFD, 0xFFFE, 0xFEFF, 0xFFFF];
        let n = rng.below(maxlen / 2 + 1);
        for _ in 0..n {
            let u = *rng.pick(UNITS);
            let b = if e == UTF_16LE { u.to_le_bytes() } else { u.to_be_bytes() };
            v.extend_from_slice(&b);
        }
        if rng.chance(1, 3) {
            v.push(pick_byte(rng));
        }
    } else if mode < 5 {
        // mostly valid: encode a shuffled selection of the seed text, then mutate a little
        let chars: Vec<char> = SEED_TEXT.chars().collect();
        let n = 1 + rng.below(maxlen.max(1));
        let s: String = (0..n).map(|_| *rng.pick(&chars)).collect();
        if e == UTF_16LE || e == UTF_16BE {
            for u in s.encode_utf16() {
                let b = if e == UTF_16LE { u.to_le_bytes() } else { u.to_be_bytes() };
                v.extend_from_slice(&b);
            }
        } else {
            let (bytes, _, _) = e.encode(&s);
            v.extend_from_slice(&bytes);
        }
        let muts = rng.below(4);
        for _ in 0..muts {
            if v.is_empty() {
                break;
            }
            let i = rng.below(v.len());
            match rng.below(3) {
                0 => v[i] = pick_byte(rng),
                1 => v.insert(i, pick_byte(rng)),
                _ => {
                    v.remove(i);
                }
            }
        }
    } else if mode < 9 {
        let n = rng.below(maxlen + 1);
        for _ in 0..n {
            v.push(pick_byte(rng));
        }
    } else {
        let n = rng.below(maxlen + 1);
        for _ in 0..n {
            v.push(rng.below(256) as u8);
        }
    }
    // BOM-ish prefixes
    match rng.below(12) {
        0 => v.splice(0..0, [0xEF, 0xBB, 0xBF]).for_each(drop),
        1 => v.splice(0..0, [0xEF, 0xBB]).for_each(drop),
        2 => v.splice(0..0, [0xEF]).for_each(drop),
        3 => v.splice(0..0, [0xFE, 0xFF]).for_each(drop),
        4 => v.splice(0..0, [0xFF, 0xFE]).for_each(drop),
        5 => v.splice(0..0, [0xFE]).for_each(drop),
        _ => {}
    }
    v.truncate(maxlen.max(3));
    v
}

pub fn gen_cuts(rng: &mut Rng, len: usize) -> Vec<usize> {
    let mut cuts = Vec::new();
    match rng.below(5) {
        0 => {}
        1 => {
            // every byte on its own
            for i in 1..len {
                cuts.push(i);
            }
        }
        _ => {
            let n = rng.below(len.min(6) + 2);
            for _ in 0..n {
                cuts.push(rng.below(len + 1));
            }
        }
    }
    cuts.sort();
    cuts.push(len);
    if rng.chance(1, 4) {
        cuts.push(len); // empty final chunk carrying `last`
    }
    cuts
}

pub fn gen_caps(rng: &mut Rng, sink16: bool, allow_small: bool) -> Vec<usize> {
    let m = min_cap(sink16);
    let choices: Vec<usize> = vec![m, m, m + 1, m + 2, m + 3, m + 4, m + 5, 7, 16, 64, 1000];
    let n = 1 + rng.below(5);
    let mut v: Vec<usize> = (0..n).map(|_| *rng.pick(&choices)).collect();
    if allow_small && rng.chance(1, 10) {
        v.push(rng.below(m));
    }
    v
}

pub fn emit(out: &mut Out, p: &Plan, props: &[&str]) {
    trace_op(&plan_lhs(p));
    let o = run_plan(p, 0);
    // the model states the contract for capacities at or above the documented
    // minimum; below it only the bounds oracles apply
    if o.calls.iter().all(|c| c.cap >= min_cap(p.sink16)) {
        if o.aborted.is_none() && pokes_finished(p) {
            // the same history plus one call after the end (the oracles below see the history without it)
            let o2 = run_plan_ex(p, 0, true);
            let lhs = op_lhs(p, &o2.calls);
            out.op(lhs, format!("ok {}", ident(o2.final_enc)));
        } else {
            let lhs = op_lhs(p, &o.calls);
            out.op(lhs, format!("ok {}", ident(o.final_enc)));
        }
    }
    oracles(out, p, &o, props);
}

/// exhaustive little universe around the BOM: prefixes over {EF,BB,BF,FE,FF,41} of length 0..3,
/// followed by a short tail, all cut sets of the first 4 bytes, small and large sinks
fn gen_bom_universe(out: &mut Out, rng: &mut Rng, encs: &[&'static Encoding], props: &[&str], thorough: bool) {
    let sym: [u8; 6] = [0xEF, 0xBB, 0xBF, 0xFE, 0xFF, 0x41];
    let mut prefixes: Vec<Vec<u8>> = vec![vec![]];
    for a in sym {
        prefixes.push(vec![a]);
        for b in sym {
            prefixes.push(vec![a, b]);
            for c in sym {
                prefixes.push(vec![a, b, c]);
            }
        }
    }
    let tails: [&[u8]; 4] = [b"", b"a", b"\x81\x40", b"\xE3\x81\x82\x1B"];
    // deterministic core: a withheld EF BB followed by a byte that is not BF (and a withheld FE / FF followed by
    // the wrong partner), every cut set of the first three bytes, both sinks, raw and with replacement, every
    // capacity from the minimum to minimum + 3 for the call that replays the withheld bytes: the arms where the
    // replayed EF fits and BB does not (ConvertingWithPendingBB), where neither fits, where both fit
    for &e in encs {
        for stream in [&b"\xEF\xBB\x41\x42"[..], b"\xEF\xBB\x81\x40", b"\xEF\xBB\xEF\xBB\xBF", b"\xEF\x41\x42", b"\xFE\x41\x42", b"\xFF\x41\x42", b"\xFE\xFE\xFF\x00\x41"] {
            for mask in 0..8usize {
                let mut cuts: Vec<usize> = (1..=3).filter(|i| mask & (1 << (i - 1)) != 0 && *i < stream.len()).collect();
                cuts.push(stream.len());
                for sink16 in [false, true] {
                    for repl in [false, true] {
                        for extra in 0..4usize {
                            let m = min_cap(sink16);
                            let p = Plan { enc: e, bom: Bom::Sniff, sink16, repl, stream: stream.to_vec(), cuts: cuts.clone(), caps: vec![m + extra], skip: false };
                            emit(out, &p, props);
                        }
                    }
                }
            }
        }
    }
    for &e in encs {
        for pre in &prefixes {
            if !thorough && pre.len() == 3 && rng.chance(2, 3) {
                continue;
            }
            let tail = tails[rng.below(tails.len())];
            let mut stream = pre.clone();
            stream.extend_from_slice(tail);
            let k = stream.len().min(4);
            // all cut sets of the first k bytes
            let masks: Vec<usize> = if thorough { (0..(1usize << k)).collect() } else { vec![0, (1 << k) - 1, rng.below(1 << k), rng.below(1 << k)] };
            for mask in masks {
                let mut cuts: Vec<usize> = (1..=k).filter(|i| mask & (1 << (i - 1)) != 0 && *i < stream.len()).collect();
                cuts.push(stream.len());
                if rng.chance(1, 3) {
                    cuts.push(stream.len());
                }
                for bom in [Bom::Sniff, Bom::Remove, Bom::Off] {
                    if !thorough && bom != Bom::Sniff && rng.chance(1, 2) {
                        continue;
                    }
                    let sink16 = rng.chance(1, 2);
                    let repl = rng.chance(1, 3);
                    let m = min_cap(sink16);
                    let caps = if rng.chance(1, 2) { vec![m] } else { vec![m + rng.below(3), 64] };
                    let p = Plan { enc: e, bom, sink16, repl, stream: stream.clone(), cuts: cuts.clone(), caps, skip: false };
                    emit(out, &p, props);
                }
            }
        }
    }
}

/// valid UTF-8 filler of exactly `n` bytes mixing 1-4 byte characters, so that `written`
/// lands inside an old character
fn filler(rng: &mut Rng, n: usize) -> String {
    let pool = ["a", "\u{E9}", "\u{3042}", "\u{1F600}", "\u{7FF}", "\u{FFFD}", "z"];
    let mut s = String::new();
    while s.len() < n {
        let c = *rng.pick(&pool);
        if s.len() + c.len() <= n {
            s.push_str(c);
        } else {
            s.push('x');
        }
    }
    s
}

/// C05/C06: the `&mut str` and `String` sinks (decode_to_str*, decode_to_string*)
fn gen_str_sinks(out: &mut Out, rng: &mut Rng, encs: &[&'static Encoding], per: usize) {
    for &e in encs {
        for _ in 0..per {
            let stream = gen_stream(rng, e, 40);
            let cuts = gen_cuts(rng, stream.len());
            let repl = rng.chance(1, 2);
            let to_string = rng.chance(1, 2);
            let bom = *rng.pick(&[Bom::Off, Bom::Off, Bom::Sniff, Bom::Remove]);
            let caps: Vec<usize> = (0..4).map(|_| 4 + rng.below(24)).collect();
            let p = Plan { enc: e, bom, sink16: false, repl, stream: stream.clone(), cuts: cuts.clone(), caps: caps.clone(), skip: false };
            let lhs = format!("{} sink={}", plan_lhs(&p), if to_string { "String" } else { "str" });
            out.oracle_evals += 1;
            let mut d = new_decoder(e, bom);
            let mut twin = new_decoder(e, bom);
            let mut start = 0usize;
            let mut capi = 0usize;
            let mut calls = 0usize;
            let mut finished = false;
            'chunks: for (ci, &end) in cuts.iter().enumerate() {
                let last = ci + 1 == cuts.len();
                let chunk = &stream[start..end];
                let mut off = 0usize;
                loop {
                    let cap = caps[capi % caps.len()];
                    capi += 1;
                    calls += 1;
                    if calls > 400 {
                        break 'chunks;
                    }
                    let expect = one_call(&mut twin, false, repl, &chunk[off..], cap, last, 0, 0);
                    let (res, rd, written_bytes): (Res, usize, Vec<u8>);
                    if to_string {
                        let plen = rng.below(9);
                        let prefix = filler(rng, plen);
                        let mut st = String::with_capacity(prefix.len() + cap);
                        st.push_str(&prefix);
                        let exact_cap = st.capacity();
                        let ptr = st.as_ptr();
                        let r = {
                            let dref = std::panic::AssertUnwindSafe(&mut d);
                            let sref = std::panic::AssertUnwindSafe(&mut st);
                            let src = chunk[off..].to_vec();
                            catch(move || {
                                let mut dref = dref;
                                let mut sref = sref;
                                if repl {
                                    let (r, rd, _) = dref.decode_to_string(&src, &mut sref, last);
                                    (match r { CoderResult::InputEmpty => Res::InputEmpty, CoderResult::OutputFull => Res::OutputFull }, rd)
                                } else {
                                    let (r, rd) = dref.decode_to_string_without_replacement(&src, &mut sref, last);
                                    (match r { DecoderResult::InputEmpty => Res::InputEmpty, DecoderResult::OutputFull => Res::OutputFull, DecoderResult::Malformed(l, a) => Res::Malformed(l, a) }, rd)
                                }
                            })
                        };
                        if st.as_ptr() != ptr || st.capacity() != exact_cap {
                            out.fail("C06", &lhs, format!("call#{} String sink reallocated", calls));
                        }
                        if std::str::from_utf8(st.as_bytes()).is_err() {
                            out.fail("C05", &lhs, format!("call#{} String left invalid", calls));
                        }
                        if !st.as_bytes().starts_with(prefix.as_bytes()) {
                            out.fail("C06", &lhs, format!("call#{} String sink altered existing contents", calls));
                        }
                        match r {
                            Ok((r, n)) => {
                                res = r;
                                rd = n;
                                written_bytes = st.as_bytes()[prefix.len().min(st.len())..].to_vec();
                            }
                            Err(m) => {
                                res = Res::Panic(m);
                                rd = 0;
                                written_bytes = Vec::new();
                            }
                        }
                        // the String sink offers its whole spare capacity, which may exceed `cap`;
                        // compare with the slice sink only when they coincide
                        if exact_cap - prefix.len() == cap && (res != expect.res || rd != expect.read || written_bytes != expect.units8) {
                            out.fail("C05", &lhs, format!("call#{} String sink differs from the slice sink: {:?}/{} vs {:?}/{}", calls, res, rd, expect.res, expect.read));
                        }
                        if exact_cap - prefix.len() != cap {
                            // keep the twin in step: redo the twin call is impossible; resynchronise by abandoning this history
                            break 'chunks;
                        }
                    } else {
                        let mut st = filler(rng, cap);
                        let r = {
                            let dref = std::panic::AssertUnwindSafe(&mut d);
                            let sref = std::panic::AssertUnwindSafe(&mut st);
                            let src = chunk[off..].to_vec();
                            catch(move || {
                                let mut dref = dref;
                                let mut sref = sref;
                                if repl {
                                    let (r, rd, wr, _) = dref.decode_to_str(&src, &mut sref, last);
                                    (match r { CoderResult::InputEmpty => Res::InputEmpty, CoderResult::OutputFull => Res::OutputFull }, rd, wr)
                                } else {
                                    let (r, rd, wr) = dref.decode_to_str_without_replacement(&src, &mut sref, last);
                                    (match r { DecoderResult::InputEmpty => Res::InputEmpty, DecoderResult::OutputFull => Res::OutputFull, DecoderResult::Malformed(l, a) => Res::Malformed(l, a) }, rd, wr)
                                }
                            })
                        };
                        let bytes = st.as_bytes().to_vec();
                        if std::str::from_utf8(&bytes).is_err() {
                            out.fail("C05", &lhs, format!("call#{} &mut str left invalid: {}", calls, hex(&bytes)));
                        }
                        if bytes.len() != cap {
                            out.fail("C06", &lhs, format!("call#{} &mut str changed length", calls));
                        }
                        match r {
                            Ok((r, n, w)) => {
                                res = r;
                                rd = n;
                                written_bytes = bytes[..w.min(bytes.len())].to_vec();
                            }
                            Err(m) => {
                                res = Res::Panic(m);
                                rd = 0;
                                written_bytes = Vec::new();
                            }
                        }
                        if res != expect.res || rd != expect.read || written_bytes != expect.units8 {
                            out.fail("C05", &lhs, format!("call#{} &mut str sink differs from the slice sink: {:?}/{} vs {:?}/{}", calls, res, rd, expect.res, expect.read));
                        }
                    }
                    off += rd.min(chunk.len() - off);
                    match res {
                        Res::Panic(_) => break 'chunks,
                        Res::InputEmpty => {
                            if last {
                                finished = true;
                            }
                            break;
                        }
                        _ => {}
                    }
                }
                start = end;
            }
            if finished {
                // reusing a finished decoder must panic and leave the sink valid and unchanged
                let mut st = filler(rng, 12);
                let before = st.clone();
                let r = {
                    let dref = std::panic::AssertUnwindSafe(&mut d);
                    let sref = std::panic::AssertUnwindSafe(&mut st);
                    catch(move || {
                        let mut dref = dref;
                        let mut sref = sref;
                        let _ = dref.decode_to_str(b"a", &mut sref, false);
                    })
                };
                // (an empty stream never leaves the BOM-sniffing start state, so the decoder is not
                // actually finished and the call may legitimately succeed)
                if std::str::from_utf8(st.as_bytes()).is_err() || (r.is_err() && st != before) {
                    out.fail("C05", &lhs, "&mut str invalid or changed by a panicking call on a finished decoder".into());
                }
                let mut s2 = String::from("é");
                s2.reserve(16);
                let r2 = {
                    let dref = std::panic::AssertUnwindSafe(&mut d);
                    let sref = std::panic::AssertUnwindSafe(&mut s2);
                    catch(move || {
                        let mut dref = dref;
                        let mut sref = sref;
                        let _ = dref.decode_to_string(b"a", &mut sref, false);
                    })
                };
                if std::str::from_utf8(s2.as_bytes()).is_err() || (r2.is_err() && s2 != "é") {
                    out.fail("C05", &lhs, "String invalid or changed by a panicking call on a finished decoder".into());
                }
            }
        }
    }
}

fn props_for(prop: &str) -> Option<Vec<&'static str>> {
    match prop {
        "C02" => Some(vec!["C02"]),
        "C05" => Some(vec!["C05"]),
        "C06" => Some(vec!["C06"]),
        "C08" => Some(vec!["C08"]),
        "C09" => Some(vec!["C09"]),
        "C10" => Some(vec!["C10"]),
        "C18" => Some(vec!["C18"]),
        "C19" => Some(vec!["C19"]),
        "C07" => Some(vec!["C07"]),
        _ => None,
    }
}

pub fn generate(prop: &str, out: &mut Out, thorough: bool, seed: u64) -> bool {
    let props = match props_for(prop) {
        Some(p) => p,
        None => return false,
    };
    let mut rng = Rng::new(seed ^ 0xDEC0 ^ (prop.as_bytes()[2] as u64) << 8);
    let encs: Vec<&'static Encoding> = ALL.to_vec();
    // every BOM life-cycle state, systematically: C10 is about them, C19 and C07 answer queries in them
    // (e.g. ConvertingWithPendingBB is reached only through EF BB <non-BF> with a stop in between)
    // (every decoder property runs it: the life-cycle states are where state-specific defects hide, and
    // reaching them by chance made detection depend on the seed)
    gen_bom_universe(out, &mut rng, &encs, &props, thorough && (prop == "C10" || prop == "C19" || prop == "C07"));
    if prop == "C05" || prop == "C06" {
        gen_str_sinks(out, &mut rng, &encs, if thorough { 1500 } else { 120 });
    }
    let per = match (prop, thorough) {
        ("C10", false) => 40,
        ("C10", true) => 400,
        (_, false) => 250,
        (_, true) => 4000,
    };
    for &e in &encs {
        for i in 0..per {
            let maxlen = if i % 5 == 4 { 120 } else { 12 };
            let stream = gen_stream(&mut rng, e, maxlen);
            let sink16 = rng.chance(1, 2);
            let repl = if prop == "C09" { rng.chance(1, 2) } else { rng.chance(1, 3) };
            let bom = match rng.below(6) {
                0 => Bom::Sniff,
                1 => Bom::Remove,
                _ => {
                    if prop == "C10" {
                        Bom::Sniff
                    } else {
                        Bom::Off
                    }
                }
            };
            let cuts = gen_cuts(&mut rng, stream.len());
            let caps = if prop == "C07" && rng.chance(3, 4) { vec![QUERY_CAP] } else { gen_caps(&mut rng, sink16, prop == "C06") };
            let skip = rng.chance(1, 2);
            let p = Plan { enc: e, bom, sink16, repl, stream, cuts, caps, skip };
            emit(out, &p, &props);
        }
        // exact-fit regime: the destination of the first call ends exactly after the k-th character of the
        // output (for several k), the rest of the input follows in the same source buffer: the classic
        // boundary of every space check (`pos + n <= len` versus `<`), on both sinks
        let fits = if thorough { 60 } else { 10 };
        for i in 0..fits {
            let stream = gen_stream(&mut rng, e, if i % 3 == 2 { 40 } else { 10 });
            if stream.is_empty() {
                continue;
            }
            let (text, _) = e.decode_without_bom_handling(&stream);
            let sink16 = i % 2 == 0;
            let mut cum = Vec::new();
            let mut acc = 0usize;
            for ch in text.chars() {
                acc += if sink16 { ch.len_utf16() } else { ch.len_utf8() };
                cum.push(acc);
            }
            let ks: Vec<usize> = if cum.len() <= 6 { (0..cum.len()).collect() } else { (0..6).map(|_| rng.below(cum.len())).collect() };
            for k in ks {
                let c0 = cum[k].max(min_cap(sink16));
                for repl in [false, true] {
                    if prop == "C07" {
                        continue;
                    }
                    let p = Plan { enc: e, bom: Bom::Off, sink16, repl, stream: stream.clone(), cuts: vec![stream.len()], caps: vec![c0, 1000, 1000, 1000, 1000, 1000, 1000, 1000], skip: false };
                    emit(out, &p, &props);
                }
            }
        }
        // exact-fit, systematic: every sequence of three items over five classes (ASCII, a 2-byte and a
        // 3-byte UTF-8 character, an astral character, an invalid byte), with the first destination ending
        // exactly after the first or after the second item; sink and replacement mode alternate
        if prop != "C07" {
            let classes: Vec<Vec<u8>> = ['a', '\u{E9}', '\u{3042}', '\u{1F4A9}']
                .iter()
                .map(|&ch| {
                    if e == UTF_16LE || e == UTF_16BE {
                        let mut b = [0u16; 2];
                        ch.encode_utf16(&mut b).iter().flat_map(|u| if e == UTF_16LE { u.to_le_bytes() } else { u.to_be_bytes() }).collect()
                    } else {
                        let mut b = [0u8; 4];
                        let (bytes, _, unmappable) = e.encode(ch.encode_utf8(&mut b));
                        if unmappable {
                            vec![b'b']
                        } else {
                            bytes.into_owned()
                        }
                    }
                })
                .chain(std::iter::once(vec![0xFFu8]))
                .collect();
            let mut idx = 0usize;
            for a in 0..classes.len() {
                for b in 0..classes.len() {
                    for c in 0..classes.len() {
                        let items = [&classes[a], &classes[b], &classes[c]];
                        let stream: Vec<u8> = items.iter().flat_map(|v| v.iter().copied()).collect();
                        for k in 1..=2usize {
                            idx += 1;
                            let sink16 = idx % 2 == 0;
                            let repl = (idx / 2) % 2 == 0;
                            let prefix: Vec<u8> = items[..k].iter().flat_map(|v| v.iter().copied()).collect();
                            let (text, _) = e.decode_without_bom_handling(&prefix);
                            let units: usize = text.chars().map(|ch| if sink16 { ch.len_utf16() } else { ch.len_utf8() }).sum();
                            let c0 = units.max(min_cap(sink16));
                            let p = Plan { enc: e, bom: Bom::Off, sink16, repl, stream: stream.clone(), cuts: vec![stream.len()], caps: vec![c0, 1000, 1000, 1000, 1000, 1000, 1000, 1000], skip: false };
                            emit(out, &p, &props);
                        }
                    }
                }
            }
        }
        // bulk / fast-path regime: an ASCII run whose length sits around a stride boundary, then one
        // non-ASCII character (valid or not), then a short tail; capacities around the run length so that
        // the destination runs out inside the run, right before / inside / right after the character
        let runs: &[usize] = if thorough { &[7, 8, 15, 16, 17, 23, 24, 31, 32, 33, 47, 48, 63, 64, 65, 127, 128, 129] } else { &[15, 16, 17, 31, 32, 33, 63, 64, 65] };
        for (ri, &l) in runs.iter().enumerate() {
            for variant in 0..(if thorough { 6 } else { 3 }) {
                let mut stream: Vec<u8> = (0..l).map(|j| b"abc, .x0;"[(j + ri) % 9]).collect();
                // the character after the run
                let ch: Vec<u8> = match (variant + ri) % 6 {
                    0 => {
                        let (b, _, _) = e.encode("\u{E9}");
                        b.into_owned()
                    }
                    1 => {
                        let (b, _, _) = e.encode("\u{3042}");
                        b.into_owned()
                    }
                    2 => vec![0xFF],
                    3 => {
                        let (b, _, _) = e.encode("\u{1F4A9}");
                        b.into_owned()
                    }
                    4 => vec![0x81],
                    _ => {
                        let (b, _, _) = e.encode("\u{20AC}");
                        b.into_owned()
                    }
                };
                stream.extend_from_slice(&ch);
                stream.extend_from_slice(&b"yz"[..(variant % 3).min(2)]);
                let sink16 = (variant + ri) % 2 == 0;
                let repl = prop == "C09" || variant % 3 == 1;
                let base = l + rng.below(4);
                let capv = vec![base.max(min_cap(sink16)) - 1 + rng.below(3), min_cap(sink16) + rng.below(3)];
                let capv: Vec<usize> = capv.into_iter().map(|c| c.max(min_cap(sink16))).collect();
                let caps = if prop == "C07" { vec![QUERY_CAP] } else { capv };
                let cuts = if variant % 2 == 0 { vec![stream.len()] } else { vec![l.saturating_sub(1 + rng.below(3)), stream.len()] };
                let p = Plan { enc: e, bom: Bom::Off, sink16, repl, stream, cuts, caps, skip: false };
                emit(out, &p, &props);
            }
        }
        // systematic regimes added after the model-mutation audit (no randomness: the histories above are unchanged)
        crate::decsys::generate_for(out, e, &props, prop);
    }
    true
}

pub fn parse_plan(toks: &[&str]) -> Option<Plan> {
    if toks.len() != 8 && !(toks.len() == 9 && toks[8] == "skip") {
        return None;
    }
    Some(Plan {
        skip: toks.len() == 9,
        enc: enc_by_ident(toks[1])?,
        bom: Bom::parse(toks[2]),
        sink16: toks[3] == "u16",
        repl: toks[4] == "repl",
        stream: unhex(toks[5]),
        cuts: parse_nats(toks[6]),
        caps: parse_nats(toks[7]),
    })
}

/// `dec …` lines carry the call records; rebuild the plan from them.
pub fn plan_from_dec(toks: &[&str]) -> Option<Plan> {
    if toks.len() != 7 {
        return None;
    }
    let stream = unhex(toks[5]);
    let mut cuts = Vec::new();
    let mut caps = Vec::new();
    let mut consumed = 0usize;
    let mut skip = false;
    // the previous call was a Malformed that consumed all it was given (and was not `last`)
    let mut prev_mal_all: Option<usize> = None;
    if toks[6] != "." {
        for c in toks[6].split(';') {
            let mut n = 0usize;
            let mut cap = 0usize;
            let mut rd = 0usize;
            let mut inputempty = false;
            let mut mal = false;
            let mut lastf = false;
            for kv in c.split(',') {
                let mut it = kv.split('=');
                let k = it.next()?;
                let v = it.next()?;
                match k {
                    "n" => n = v.parse().ok()?,
                    "c" => cap = v.parse().ok()?,
                    "rd" => rd = v.parse().ok()?,
                    "r" => {
                        inputempty = v == "I";
                        mal = v.starts_with('M');
                    }
                    "l" => lastf = v == "1",
                    _ => {}
                }
            }
            caps.push(cap);
            if let Some(at) = prev_mal_all {
                if n > 0 {
                    // the caller went on with the next chunk without an empty call
                    skip = true;
                    cuts.push(at);
                }
            }
            prev_mal_all = if mal && rd == n && !lastf { Some(consumed + n) } else { None };
            if inputempty {
                cuts.push(consumed + n);
            }
            consumed += rd;
        }
    }
    if cuts.last() != Some(&stream.len()) {
        cuts.push(stream.len());
    }
    if caps.is_empty() {
        caps.push(64);
    }
    Some(Plan { enc: enc_by_ident(toks[1])?, bom: Bom::parse(toks[2]), sink16: toks[3] == "u16", repl: toks[4] == "repl", stream, cuts, caps, skip })
}

pub fn replay(toks: &[&str], out: &mut Out) -> bool {
    let all = ["C01", "C02", "C05", "C06", "C07", "C08", "C09", "C10", "C18", "C19"];
    match toks[0] {
        "decplan" => {
            if let Some(p) = parse_plan(toks) {
                emit(out, &p, &all);
            }
            true
        }
        "dec" => {
            if let Some(p) = plan_from_dec(toks) {
                emit(out, &p, &all);
            }
            true
        }
        _ => false,
    }
}
