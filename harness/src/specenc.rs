//! SPECENC (property C03): the real encoders against the EXECUTABLE transcription of the
//! Encoding Standard's encoders (lean/EncodingRs/Spec/Encode.lean, through the driver).
//!
//!   specenc  <ENC ident> <text as UTF-16 code units, hex16> => <hex of the bytes written>
//!   specdump <ENC ident> <text as UTF-16 code units, hex16> => <hex bytes taken from spec/encode-dump-*.txt>
//!
//! `specenc`: a fresh encoder (`Encoding::new_encoder`, i.e. the encoder of the output encoding)
//! encodes the text with the WITH-replacement streaming API `encode_from_utf16` (unpaired
//! surrogates allowed in the source), `last = true`, into a destination that is large enough
//! for the whole output (called again while it answers `OutputFull`).  The right-hand side is
//! everything written: bytes, decimal numeric character references for unmappable characters,
//! ISO-2022-JP escapes incl. the final return to ASCII.
//!
//! Oracles on the implementation (reported as ORACLE-FAIL C03):
//!  * `Encoding::encode(&str)` on the lossy UTF-8 form of the text returns the same bytes, names
//!    the output encoding, and its `had_unmappables` flag equals the one of the streaming call;
//!  * `encode_from_utf8` (streaming) returns the same bytes;
//!  * every line of the vendored encode dumps (code point ↦ bytes with the Standard's pointer
//!    selection applied; tests/test_data/*_out*.txt of the pinned tree) is reproduced.
//!
//! quick: every scalar of a ~4k class set alone + all ordered pairs of a 40-character
//! per-encoding alphabet + surrogate arrangements + 2000 seeded texts per encoding;
//! thorough: every scalar value for each of the 40 encodings (32 per line for the stateless
//! encoders, alone for ISO-2022-JP) + all ordered pairs of a 120-character alphabet.
//!
//! Property names served: `C03`, `SPECENC` (all 40) and `SPECENC:<ENC ident>` (one encoding).
use crate::dec::{enc_by_ident, ALL};
use crate::util::*;
use encoding_rs::*;

/// everything `encode_from_utf16` writes for `units` (with `last = true`), and had_unmappables
fn encode16(e: &'static Encoding, units: &[u16]) -> Result<(Vec<u8>, bool), String> {
    let units = units.to_vec();
    catch(move || {
        let mut enc = e.new_encoder();
        let mut out: Vec<u8> = Vec::new();
        let mut src: &[u16] = &units;
        let mut had = false;
        let mut rounds = 0usize;
        // big buffer: 10 bytes (longest NCR) per unit + NCR_EXTRA slack + the final escape
        let mut dst = vec![0u8; units.len() * 10 + 32];
        loop {
            let (r, read, written, hu) = enc.encode_from_utf16(src, &mut dst, true);
            out.extend_from_slice(&dst[..written]);
            src = &src[read..];
            had |= hu;
            match r {
                CoderResult::InputEmpty => return (out, had),
                CoderResult::OutputFull => {
                    rounds += 1;
                    if rounds > units.len() + 4 {
                        panic!("STUCK");
                    }
                }
            }
        }
    })
}

fn encode8_stream(e: &'static Encoding, s: &str) -> Result<Vec<u8>, String> {
    let s = s.to_string();
    catch(move || {
        let mut enc = e.new_encoder();
        let mut out: Vec<u8> = Vec::new();
        let mut src: &str = &s;
        let mut rounds = 0usize;
        let mut dst = vec![0u8; s.len() * 10 + 32];
        loop {
            let (r, read, written, _) = enc.encode_from_utf8(src, &mut dst, true);
            out.extend_from_slice(&dst[..written]);
            src = &src[read..];
            match r {
                CoderResult::InputEmpty => return out,
                CoderResult::OutputFull => {
                    rounds += 1;
                    if rounds > s.len() + 4 {
                        panic!("STUCK");
                    }
                }
            }
        }
    })
}

fn emit(out: &mut Out, id: &str, e: &'static Encoding, units: &[u16]) {
    let lhs = format!("specenc {} {}", id, hex16(units));
    trace_op(&lhs);
    let r16 = encode16(e, units);
    let (bytes, had) = match r16 {
        Ok(x) => x,
        Err(m) => {
            out.op(lhs.clone(), "P".into());
            out.fail("C03", &lhs, format!("encode_from_utf16 panicked: {}", m));
            return;
        }
    };
    out.op(lhs.clone(), hex(&bytes));
    // source-form / one-shot oracles
    let s = String::from_utf16_lossy(units);
    out.oracle_evals += 2;
    let s2 = s.clone();
    match catch(move || {
        let (cow, used, hu) = e.encode(&s2);
        (cow.into_owned(), used, hu)
    }) {
        Ok((b8, used, hu)) => {
            if b8 != bytes {
                out.fail("C03", &lhs, format!("Encoding::encode(&str) = {} but encode_from_utf16 = {}", hex(&b8), hex(&bytes)));
            }
            if used != e.output_encoding() {
                out.fail("C03", &lhs, format!("Encoding::encode reports encoding {} instead of the output encoding {}", used.name(), e.output_encoding().name()));
            }
            if hu != had {
                out.fail("C03", &lhs, format!("had_unmappables: encode = {}, encode_from_utf16 = {}", hu, had));
            }
        }
        Err(m) => out.fail("C03", &lhs, format!("Encoding::encode panicked: {}", m)),
    }
    match encode8_stream(e, &s) {
        Ok(b8) => {
            if b8 != bytes {
                out.fail("C03", &lhs, format!("encode_from_utf8 = {} but encode_from_utf16 = {}", hex(&b8), hex(&bytes)));
            }
        }
        Err(m) => out.fail("C03", &lhs, format!("encode_from_utf8 panicked: {}", m)),
    }
}

fn units_of(cs: &[u32]) -> Vec<u16> {
    let mut v = Vec::new();
    for &c in cs {
        if let Some(ch) = char::from_u32(c) {
            let mut b = [0u16; 2];
            v.extend_from_slice(ch.encode_utf16(&mut b));
        } else if c < 0x10000 {
            v.push(c as u16); // a lone surrogate
        }
    }
    v
}

/// constants appearing in the Standard's encoders and in the encoder bodies (range ends, special cases)
const EDGES: &[u32] = &[
    0x00, 0x0E, 0x0F, 0x1B, 0x23, 0x26, 0x30, 0x39, 0x3B, 0x3C, 0x5C, 0x7E, 0x7F, 0x80, 0xA0, 0xA1, 0xA4, 0xA5, 0xAA, 0xE0, 0xF7, 0xFF,
    0x0168, 0x0262, 0x02C7, 0x02C9, 0x02CA, 0x02D9, 0x02DA, 0x02DD, 0x0391, 0x0401, 0x0451, 0x07FF, 0x0800, 0x1E3F, 0x2010, 0x2014,
    0x2015, 0x203E, 0x20AC, 0x2160, 0x2170, 0x2179, 0x2212, 0x2252, 0x2261, 0x2460, 0x2500, 0x254C, 0x2550, 0x255E, 0x2561,
    0x256A, 0x266D, 0x2E81, 0x2ECA, 0x3000, 0x3002, 0x3015, 0x3017, 0x3041, 0x3093, 0x309B, 0x309C, 0x30A1, 0x30F6, 0x30FB, 0x321C,
    0x33D8, 0x33DE, 0x3400, 0x4491, 0x4E00, 0x4E5A, 0x4EDD, 0x5188, 0x5202, 0x5341, 0x5345, 0x72DC, 0x9F9D, 0x9FA0, 0x9FA5, 0x9FA6,
    0x9FB0, 0x9FB1, 0x9FB4, 0x9FBB, 0xA000, 0xAC00, 0xC8A5, 0xD7A3, 0xD7A4, 0xD7FF, 0xE000, 0xE234, 0xE4C5, 0xE5E5, 0xE757, 0xE78D,
    0xE796, 0xE7C7, 0xE810, 0xE814, 0xE816, 0xE81E, 0xE826, 0xE82B, 0xE82C, 0xE832, 0xE843, 0xE854, 0xE855, 0xE864, 0xF780, 0xF7FF,
    0xF900, 0xF929, 0xF9DC, 0xFA0C, 0xFA0E, 0xFA2D, 0xFB00, 0xFE10, 0xFE17, 0xFE19, 0xFF01, 0xFF04, 0xFF0D, 0xFF3C, 0xFF5E, 0xFF61, 0xFF66,
    0xFF70, 0xFF9D, 0xFF9F, 0xFFE1, 0xFFE2, 0xFFE4, 0xFFE5, 0xFFE6, 0xFFFD, 0xFFFF, 0x10000, 0x1FFFF, 0x20000, 0x2008A, 0x200CC, 0x27607, 0x2F8A6,
    0x2FFFF, 0x10FFFF,
];

/// class set: the scalar values tried alone in the quick tier (~4k per encoding)
fn class_set(e: &'static Encoding, rng: &mut Rng) -> Vec<u32> {
    let mut v: Vec<u32> = (0..0x500u32).collect();
    for &x in EDGES {
        for d in 0..5u32 {
            v.push((x + d).saturating_sub(2));
        }
    }
    // boundary values of the source's own comparison constants
    v.extend_from_slice(source_constants());
    // what the decoder can produce is what the encoder is most likely to map
    let mut n = 0;
    while n < 1400 {
        let k = 1 + rng.below(4);
        let bytes: Vec<u8> = (0..k).map(|i| if i == 0 { 0x80 | rng.below(0x80) as u8 } else { rng.below(256) as u8 }).collect();
        let (s, _) = e.decode_without_bom_handling(&bytes);
        for ch in s.chars() {
            v.push(ch as u32);
            n += 1;
        }
        n += 1;
    }
    for _ in 0..900 {
        v.push(rng.below(0x10000) as u32);
    }
    for _ in 0..250 {
        v.push(0x10000 + rng.below(0x100000) as u32);
    }
    v.retain(|&c| char::from_u32(c).is_some());
    v.sort();
    v.dedup();
    v
}

/// the characters whose neighbourhood matters (state transitions of ISO-2022-JP, NCR text next
/// to escapes, first/last pointers): the first `n` are used for "all ordered pairs"
fn alphabet(e: &'static Encoding, rng: &mut Rng, n: usize) -> Vec<u32> {
    let mut v: Vec<u32> = vec![
        0x41, 0x5C, 0x7E, 0x0E, 0x1B, 0x26, 0x3B, 0x39, 0x80, 0xA5, 0x203E, 0x2212, 0xFF61, 0xFF9F, 0x3042, 0x30A2, 0x4E00, 0x4EDD,
        0xE5E5, 0x20AC, 0xFFFD, 0x10000, 0x2008A, 0x1F600, 0xE9, 0x0F, 0x00, 0x7F, 0xF780, 0x2170, 0xFA0E, 0xE7C7, 0x2550, 0x5341,
        0xFF0D, 0xAC00, 0x3000, 0xFFE2, 0x0401, 0x10FFFF,
    ];
    let more: Vec<u32> = EDGES.iter().copied().filter(|c| !v.contains(c) && char::from_u32(*c).is_some()).collect();
    // encoder-specific: decodable characters
    let mut tries = 0;
    while v.len() < 40 + 40 && tries < 4000 {
        tries += 1;
        let k = 1 + rng.below(4);
        let bytes: Vec<u8> = (0..k).map(|i| if i == 0 { 0x80 | rng.below(0x80) as u8 } else { rng.below(256) as u8 }).collect();
        let (s, _) = e.decode_without_bom_handling(&bytes);
        for ch in s.chars() {
            let c = ch as u32;
            if c >= 0x80 && c != 0xFFFD && !v.contains(&c) {
                v.push(c);
            }
        }
    }
    // keep the hand-picked 40 first, then interleave decodable characters and edges
    let mut out: Vec<u32> = v[..40].to_vec();
    let dec: Vec<u32> = v[40..].to_vec();
    let mut i = 0;
    while out.len() < n && (i < dec.len() || i < more.len()) {
        if i < dec.len() {
            out.push(dec[i]);
        }
        if i < more.len() && out.len() < n {
            out.push(more[i]);
        }
        i += 1;
    }
    out.truncate(n);
    out
}

const SURROGATE_SHAPES: &[&[u32]] = &[
    &[0xD800],
    &[0xDBFF],
    &[0xDC00],
    &[0xDFFF],
    &[0xDC00, 0xD800],
    &[0xD83D, 0xDE00],
    &[0xD800, 0xD800, 0xDC00],
    &[0xD800, 0xDC00, 0xDC00],
    &[0xD800, 0x41],
    &[0x41, 0xD800],
    &[0x41, 0xDC00, 0x41],
    &[0xDBFF, 0xDFFF],
    &[0xD800, 0xD800],
    &[0xDC00, 0xDC00],
];

fn dump_files() -> Vec<(&'static str, &'static Encoding)> {
    vec![
        ("big5", BIG5),
        ("euc-kr", EUC_KR),
        ("gb18030", GB18030),
        ("euc-jp", EUC_JP),
        ("shift_jis", SHIFT_JIS),
        ("iso-2022-jp", ISO_2022_JP),
    ]
}

fn dumps(out: &mut Out, only: Option<&'static Encoding>) {
    for (name, e) in dump_files() {
        if let Some(o) = only {
            if o != e {
                continue;
            }
        }
        let path = format!("{}/spec/encode-dump-{}.txt", verif_dir(), name);
        let text = match std::fs::read_to_string(&path) {
            Ok(t) => t,
            Err(_) => {
                out.fail("C03", &format!("specdump {} .", ident(e)), format!("cannot read {}", path));
                continue;
            }
        };
        let id = ident(e);
        for line in text.lines() {
            if line.starts_with('#') || line.is_empty() {
                continue;
            }
            let mut it = line.split('\t');
            let c = u32::from_str_radix(it.next().unwrap(), 16).unwrap();
            let want = it.next().unwrap().to_string();
            let units = units_of(&[c]);
            let lhs = format!("specdump {} {}", id, hex16(&units));
            out.op(lhs.clone(), want.clone());
            out.oracle_evals += 1;
            match encode16(e, &units) {
                Ok((b, _)) => {
                    if hex(&b) != want {
                        out.fail("C03", &format!("specenc {} {}", id, hex16(&units)), format!("vendored encode dump says {} but the encoder wrote {}", want, hex(&b)));
                    }
                }
                Err(m) => out.fail("C03", &lhs, format!("panic {}", m)),
            }
        }
    }
}

pub fn generate(prop: &str, out: &mut Out, thorough: bool, seed: u64) -> bool {
    let encs: Vec<&'static Encoding> = if prop == "C03" || prop == "SPECENC" {
        ALL.to_vec()
    } else if let Some(id) = prop.strip_prefix("SPECENC:") {
        match enc_by_ident(id) {
            Some(e) => vec![e],
            None => return false,
        }
    } else {
        return false;
    };
    dumps(out, if encs.len() == 1 { Some(encs[0]) } else { None });
    for &e in &encs {
        let id = ident(e);
        let mut rng = Rng::new(seed ^ 0x5BEC ^ ((id.len() as u64) << 20) ^ (id.bytes().map(|b| b as u64).sum::<u64>() << 8));
        // 1. scalars alone
        if thorough {
            if e == ISO_2022_JP {
                for c in 0..=0x10FFFFu32 {
                    if char::from_u32(c).is_some() {
                        emit(out, &id, e, &units_of(&[c]));
                    }
                }
            } else {
                let mut chunk: Vec<u32> = Vec::new();
                for c in 0..=0x10FFFFu32 {
                    if char::from_u32(c).is_some() {
                        chunk.push(c);
                        if chunk.len() == 32 {
                            emit(out, &id, e, &units_of(&chunk));
                            chunk.clear();
                        }
                    }
                }
                if !chunk.is_empty() {
                    emit(out, &id, e, &units_of(&chunk));
                }
            }
        } else {
            for c in class_set(e, &mut rng) {
                emit(out, &id, e, &units_of(&[c]));
            }
        }
        // 2. all ordered pairs of the alphabet (state transitions; NCR next to escapes)
        let alpha = alphabet(e, &mut rng, if thorough { 120 } else { 40 });
        for &a in &alpha {
            for &b in &alpha {
                emit(out, &id, e, &units_of(&[a, b]));
            }
        }
        // 3. surrogate arrangements, alone and framed by characters of every state
        for shape in SURROGATE_SHAPES {
            emit(out, &id, e, &units_of(shape));
            for &f in &[0x41u32, 0xA5, 0x3042, 0xFFFF] {
                let mut v = vec![f];
                v.extend_from_slice(shape);
                emit(out, &id, e, &units_of(&v));
                v.push(f);
                emit(out, &id, e, &units_of(&v));
            }
        }
        // 4. seeded texts
        let texts = if thorough { 20000 } else { 2000 };
        let cls = class_set(e, &mut rng);
        for i in 0..texts {
            let n = if i % 7 == 6 { 1 + rng.below(60) } else { 1 + rng.below(9) };
            let mut cs: Vec<u32> = Vec::new();
            for _ in 0..n {
                let c = match rng.below(10) {
                    0..=3 => *rng.pick(&alpha),
                    4..=6 => *rng.pick(&cls),
                    7 => 0x20 + rng.below(0x5F) as u32,
                    8 => 0xD800 + rng.below(0x800) as u32, // a surrogate code unit (may pair up by chance)
                    _ => rng.below(0x110000) as u32,
                };
                cs.push(c);
            }
            emit(out, &id, e, &units_of(&cs));
        }
        emit(out, &id, e, &[]);
    }
    true
}

pub fn replay(toks: &[&str], out: &mut Out) -> bool {
    if toks.len() != 3 || (toks[0] != "specenc" && toks[0] != "specdump") {
        return false;
    }
    let e = match enc_by_ident(toks[1]) {
        Some(e) => e,
        None => return false,
    };
    let units = unhex16(toks[2]);
    emit(out, &ident(e), e, &units);
    true
}
