//! C05 / C15: the whole `&mut str` destination before and after a call of the safe `&mut str` sinks.
//!
//! Operation line (driver operation `zerotail`, model `lean/EncodingRs/Model/StrSink.lean`):
//!
//!   zerotail <fn> <written> <hex of dst before> <src> => <hex of dst after> | panic
//!
//! `<fn>`:
//!   convert_utf16_to_str_partial | convert_utf16_to_str          (src: hex16)
//!   convert_latin1_to_str_partial | convert_latin1_to_str        (src: hex)
//!   decode_to_str:<ENC>[:sniff] | decode_to_str_without_replacement:<ENC>[:sniff] (src: hex; one call with
//!       `last = true` of a fresh `new_decoder_without_bom_handling()` / with `:sniff` of `new_decoder()`)
//! `<written>` is what the call returned (`-` when it panicked); the model recomputes it for the `mem`
//! functions and checks it against the complete decoding for the decoders, then recomputes the whole
//! destination: written prefix, zeroed stride window (all functions but `decode_to_str*` of the UTF-8
//! decoder), zeroed continuation bytes, untouched rest.
//!
//! Destinations are `&mut str` pre-filled with the three `STR_PATS` patterns of `memconv.rs` behind 0..3
//! ASCII bytes, so that `written`, and `written + MAX_STRIDE_SIZE`, land at every phase of an old
//! multi-byte character.
//!
//! Oracles (independent of the model): the destination is valid UTF-8 afterwards (C05), `dst[..written]`
//! is valid UTF-8 (C05), and every byte behind the zeroed region — `written`, plus the stride window,
//! plus the continuation bytes that follow in the old contents — is unmodified (C15/C05: the
//! stride-garbage hypothesis of `Thm/C05Str.lean`).

use crate::memconv::{fill_str_pattern, STR_PATS};
use crate::util::*;
use encoding_rs::mem;
use encoding_rs::{CoderResult, DecoderResult, Encoding};

/// `ascii::MAX_STRIDE_SIZE` (crate-private); the model takes it from the source (`Gen.maxStrideSize`)
const MAX_STRIDE_SIZE: usize = 16;

#[derive(Clone, Copy, PartialEq)]
enum Fun {
    U16StrP,
    U16Str,
    L1StrP,
    L1Str,
    Dec(&'static Encoding, bool, bool), // (encoding, with replacement, BOM sniffing)
}

impl Fun {
    fn name(&self) -> String {
        match self {
            Fun::U16StrP => "convert_utf16_to_str_partial".to_string(),
            Fun::U16Str => "convert_utf16_to_str".to_string(),
            Fun::L1StrP => "convert_latin1_to_str_partial".to_string(),
            Fun::L1Str => "convert_latin1_to_str".to_string(),
            Fun::Dec(e, repl, sniff) => format!(
                "{}:{}{}",
                if *repl { "decode_to_str" } else { "decode_to_str_without_replacement" },
                ident(e),
                if *sniff { ":sniff" } else { "" }
            ),
        }
    }
    fn from_name(s: &str) -> Option<Fun> {
        match s {
            "convert_utf16_to_str_partial" => Some(Fun::U16StrP),
            "convert_utf16_to_str" => Some(Fun::U16Str),
            "convert_latin1_to_str_partial" => Some(Fun::L1StrP),
            "convert_latin1_to_str" => Some(Fun::L1Str),
            _ => {
                let parts: Vec<&str> = s.split(':').collect();
                if parts.len() < 2 || parts.len() > 3 || (parts.len() == 3 && parts[2] != "sniff") {
                    return None;
                }
                let repl = match parts[0] {
                    "decode_to_str" => true,
                    "decode_to_str_without_replacement" => false,
                    _ => return None,
                };
                let e = all_encodings().into_iter().find(|e| ident(e) == parts[1])?;
                Some(Fun::Dec(e, repl, parts.len() == 3))
            }
        }
    }
    fn src16(&self) -> bool {
        matches!(self, Fun::U16StrP | Fun::U16Str)
    }
    /// does the function zero a stride window (`decode_to_str*`: `self.encoding != UTF_8`, where
    /// `self.encoding` is the encoding after BOM sniffing)
    fn stride(&self, src: &Src) -> bool {
        match (self, src) {
            (Fun::Dec(e, _, sniff), Src::B(b)) => {
                let used = if *sniff { Encoding::for_bom(b).map(|(e, _)| e).unwrap_or(*e) } else { *e };
                used != encoding_rs::UTF_8
            }
            _ => true,
        }
    }
}

fn all_encodings() -> Vec<&'static Encoding> {
    const LABELS: &[&str] = &[
        "UTF-8", "windows-1252", "windows-1251", "ISO-8859-2", "KOI8-U", "macintosh", "x-user-defined", "Shift_JIS",
        "EUC-JP", "ISO-2022-JP", "EUC-KR", "Big5", "GBK", "gb18030", "UTF-16LE", "UTF-16BE", "replacement",
    ];
    LABELS.iter().filter_map(|l| Encoding::for_label(l.as_bytes())).collect()
}

#[derive(Clone)]
enum Src {
    B(Vec<u8>),
    W(Vec<u16>),
}

impl Src {
    fn hex(&self) -> String {
        match self {
            Src::B(b) => hex(b),
            Src::W(w) => hex16(w),
        }
    }
}

/// valid UTF-8 of exactly `len` bytes: `rot` ASCII bytes, then the pattern, padded with `x`
fn make_dst(len: usize, pat: usize, rot: usize) -> Vec<u8> {
    let mut d = vec![b'y'; len];
    let r = rot.min(len);
    fill_str_pattern(&mut d[r..], pat);
    d
}

fn is_cont(b: u8) -> bool {
    (b & 0xC0) == 0x80
}

fn run_case(out: &mut Out, props: &[&str], f: Fun, src: &Src, before: &[u8]) {
    let mut dst = before.to_vec();
    let name = f.name();
    let lhs_probe = format!("zerotail {} ? {} {}", name, hex(before), src.hex());
    trace_op(&lhs_probe);
    let r: Result<usize, String> = {
        let dref = std::panic::AssertUnwindSafe(&mut dst);
        let src = src.clone();
        catch(move || {
            let mut dref = dref;
            let s: &mut str = std::str::from_utf8_mut(&mut dref[..]).expect("harness: dst pattern is valid UTF-8");
            match (f, &src) {
                (Fun::U16StrP, Src::W(w)) => mem::convert_utf16_to_str_partial(w, s).1,
                (Fun::U16Str, Src::W(w)) => mem::convert_utf16_to_str(w, s),
                (Fun::L1StrP, Src::B(b)) => mem::convert_latin1_to_str_partial(b, s).1,
                (Fun::L1Str, Src::B(b)) => mem::convert_latin1_to_str(b, s),
                (Fun::Dec(e, true, sniff), Src::B(b)) => {
                    let mut d = if sniff { e.new_decoder() } else { e.new_decoder_without_bom_handling() };
                    let (r, _, w, _) = d.decode_to_str(b, s, true);
                    let _ = matches!(r, CoderResult::InputEmpty);
                    w
                }
                (Fun::Dec(e, false, sniff), Src::B(b)) => {
                    let mut d = if sniff { e.new_decoder() } else { e.new_decoder_without_bom_handling() };
                    let (r, _, w) = d.decode_to_str_without_replacement(b, s, true);
                    let _ = matches!(r, DecoderResult::InputEmpty);
                    w
                }
                _ => unreachable!(),
            }
        })
    };
    let (lhs, rhs) = match &r {
        Ok(w) => (format!("zerotail {} {} {} {}", name, w, hex(before), src.hex()), hex(&dst)),
        Err(_) => (format!("zerotail {} - {} {}", name, hex(before), src.hex()), "panic".to_string()),
    };
    // oracles
    out.oracle_evals += 1;
    let mut fails: Vec<(&str, String)> = Vec::new();
    if dst.len() != before.len() {
        fails.push(("C05", "harness: destination length changed".to_string()));
    }
    if let Err(e) = std::str::from_utf8(&dst) {
        let from = e.valid_up_to();
        let to = (from + 8).min(dst.len());
        fails.push((
            "C05",
            format!(
                "&mut str destination left invalid UTF-8 (valid up to {} of {}, bytes there {}, before the call {})",
                from,
                dst.len(),
                hex(&dst[from..to]),
                hex(&before[from..to])
            ),
        ));
    }
    if let Ok(w) = r {
        if w > dst.len() {
            fails.push(("C05", format!("written {} exceeds dst len {}", w, dst.len())));
        } else {
            if std::str::from_utf8(&dst[..w]).is_err() {
                fails.push(("C05", format!("dst[..written] (written {}) is not valid UTF-8", w)));
            }
            // the region the function is entitled to zero, computed on the old contents
            let mut e = w;
            if f.stride(src) {
                e = dst.len().min(w + MAX_STRIDE_SIZE);
            }
            while e < dst.len() && is_cont(before[e]) {
                e += 1;
            }
            if let Some(i) = (e..dst.len()).find(|&i| dst[i] != before[i]) {
                let msg = format!(
                    "{} modified dst[{}] (0x{:02x} -> 0x{:02x}) beyond written {} + {}zeroed continuation bytes (zeroed region ends at {})",
                    name,
                    i,
                    before[i],
                    dst[i],
                    w,
                    if f.stride(src) { "MAX_STRIDE_SIZE + " } else { "" },
                    e
                );
                fails.push(("C15", msg.clone()));
                fails.push(("C05", msg));
            }
            if let Some(i) = (w..e).find(|&i| dst[i] != 0) {
                fails.push(("C05", format!("{} left dst[{}] = 0x{:02x} inside the region it zeroes ({}..{})", name, i, dst[i], w, e)));
            }
        }
    } else if dst != before && std::str::from_utf8(&dst).is_err() {
        fails.push(("C05", "&mut str invalid after a panic".to_string()));
    }
    for (p, m) in fails {
        if props.contains(&p) {
            out.fail(p, &lhs, m);
        }
    }
    out.op(lhs, rhs);
}

// ---------------------------------------------------------------------------
// generation
// ---------------------------------------------------------------------------

/// UTF-16 tails after an ASCII run: (units, UTF-8 length)
fn tails16() -> Vec<Vec<u16>> {
    vec![
        vec![],
        vec![0xE4],
        vec![0x3042],
        vec![0xD83D, 0xDCA9],
        vec![0xD800],
        vec![0xDC00, 0x41],
        vec![0xE4, 0x41, 0x3042, 0x42],
        vec![0x3042, 0x3042, 0x3042, 0x3042, 0x3042],
        // the ends of the surrogate ranges, paired and unpaired (the `'tail` of convert_utf16_to_utf8_partial tests
        // `second` against 0xDC00..=0xDFFF when exactly three bytes are free; model-mutation audit SS09 / ME13 / ME14 / ME16)
        vec![0xDBFF, 0xDFFF],
        vec![0xD800, 0xDC00],
        vec![0xD800, 0xDFFF, 0x41],
        vec![0xDBFF, 0xDC00, 0x41],
        vec![0xDBFF],
        vec![0xDFFF],
        vec![0xDBFF, 0xE000],
        vec![0xD800, 0xDBFF],
        vec![0xD7FF, 0xDC00],
    ]
}

fn tails8() -> Vec<Vec<u8>> {
    vec![vec![], vec![0xE4], vec![0xFF, 0x41], vec![0x80, 0x80, 0x80], vec![0xE4, 0x41, 0xC0, 0x42]]
}

fn ascii_runs(thorough: bool) -> Vec<usize> {
    if thorough {
        (0..=50).collect()
    } else {
        vec![0, 1, 3, 7, 14, 15, 16, 17, 31, 32, 33, 47, 48, 49]
    }
}

/// destination lengths for a conversion whose complete output has `full` bytes and whose ASCII run has `a`
fn dst_lens(rng: &mut Rng, a: usize, full: usize, thorough: bool) -> Vec<usize> {
    let mut v: Vec<usize> = Vec::new();
    if thorough {
        v.extend(0..=(full + 2 * MAX_STRIDE_SIZE + 5));
    } else {
        for d in [0usize, 1, 2, 3, 4] {
            v.push(a.saturating_sub(2) + d);
            v.push(full.saturating_sub(1) + d);
        }
        for d in [MAX_STRIDE_SIZE - 1, MAX_STRIDE_SIZE, MAX_STRIDE_SIZE + 1, MAX_STRIDE_SIZE + 2, MAX_STRIDE_SIZE + 3, MAX_STRIDE_SIZE + 4, 2 * MAX_STRIDE_SIZE + 3] {
            v.push(full + d);
        }
        v.push(rng.below(full + 40));
        v.push(0);
    }
    v.sort();
    v.dedup();
    v
}

fn utf8_len16(w: &[u16]) -> usize {
    String::from_utf16_lossy(w).len()
}

struct DecSrc {
    enc: &'static str,
    srcs: Vec<Vec<u8>>,
}

fn dec_sources() -> Vec<DecSrc> {
    let a = |n: usize| vec![b'a'; n];
    let cat = |parts: &[&[u8]]| -> Vec<u8> { parts.concat() };
    vec![
        DecSrc {
            enc: "UTF-8",
            srcs: vec![
                cat(&[&a(3), "\u{E4}\u{3042}".as_bytes()]),
                cat(&[&a(15), "\u{E4}".as_bytes()]),
                cat(&[&a(16), "\u{1F4A9}".as_bytes(), &a(2)]),
                cat(&[&a(5), &[0xE3, 0x81], &a(20)]),
                cat(&[&a(17), &[0xFF], "\u{20AC}".as_bytes()]),
                cat(&[&a(70), "\u{20AC}".as_bytes(), &a(3)]),
                vec![0xF0, 0x9F, 0x92],
            ],
        },
        DecSrc { enc: "windows-1252", srcs: vec![cat(&[&a(3), &[0xE4, 0x80]]), cat(&[&a(15), &[0xE4]]), cat(&[&a(16), &[0x81, 0x41]]), cat(&[&a(33), &[0x99], &a(4)]), a(40)] },
        DecSrc { enc: "windows-1251", srcs: vec![cat(&[&a(14), &[0xC0, 0xC1, 0xC2]]), cat(&[&a(31), &[0x98, 0xFF]])] },
        DecSrc { enc: "x-user-defined", srcs: vec![cat(&[&a(15), &[0x80, 0xFF]]), cat(&[&a(2), &[0xA0]])] },
        DecSrc { enc: "Shift_JIS", srcs: vec![cat(&[&a(15), &[0x82, 0xA0]]), cat(&[&a(16), &[0x82], &a(3)]), cat(&[&a(3), &[0xB1, 0x82, 0xA0, 0xFF]]), cat(&[&a(32), &[0x81]])] },
        DecSrc { enc: "EUC-JP", srcs: vec![cat(&[&a(15), &[0xA4, 0xA2]]), cat(&[&a(17), &[0x8F, 0xB0, 0xA1, 0x8E, 0xB1]]), cat(&[&a(2), &[0xA4]])] },
        DecSrc { enc: "ISO-2022-JP", srcs: vec![cat(&[&a(15), &[0x1B, 0x24, 0x42, 0x24, 0x22, 0x1B, 0x28, 0x42], &a(3)]), cat(&[&a(16), &[0x0E, 0x41]]), cat(&[&a(4), &[0x1B, 0x24, 0x42, 0x24]])] },
        DecSrc { enc: "EUC-KR", srcs: vec![cat(&[&a(15), &[0xB0, 0xA1]]), cat(&[&a(16), &[0xB0], &a(2)]), cat(&[&a(33), &[0xFF, 0xB0, 0xA1]])] },
        DecSrc { enc: "Big5", srcs: vec![cat(&[&a(15), &[0xA4, 0x40]]), cat(&[&a(16), &[0x88, 0x62, 0x88, 0x64]]), cat(&[&a(1), &[0x81, 0x40]])] },
        DecSrc { enc: "GBK", srcs: vec![cat(&[&a(15), &[0xB0, 0xA1]]), cat(&[&a(16), &[0x80, 0xFF]])] },
        DecSrc { enc: "gb18030", srcs: vec![cat(&[&a(15), &[0x81, 0x30, 0x81, 0x30]]), cat(&[&a(16), &[0x90, 0x30, 0x81, 0x30, 0x41]]), cat(&[&a(3), &[0x81, 0x30, 0x81]])] },
        DecSrc { enc: "UTF-16LE", srcs: vec![vec![0x61, 0, 0xE4, 0, 0x42, 0x30], cat(&[&[0x61, 0].repeat(15), &[0xE4, 0, 0x3D, 0xD8, 0xA9, 0xDC]]), vec![0x61, 0, 0x00, 0xD8, 0x41], cat(&[&[0x61, 0].repeat(17), &[0x00, 0xDC]])] },
        DecSrc { enc: "UTF-16BE", srcs: vec![vec![0, 0x61, 0x30, 0x42, 0xD8], cat(&[&[0, 0x61].repeat(16), &[0xD8, 0x3D, 0xDC, 0xA9]])] },
        DecSrc { enc: "replacement", srcs: vec![a(3), vec![]] },
    ]
}

pub fn generate(prop: &str, out: &mut Out, thorough: bool, seed: u64) -> bool {
    if prop != "C05" && prop != "C15" {
        return false;
    }
    let props: &[&str] = if prop == "C05" { &["C05"] } else { &["C15"] };
    let mut rng = Rng::new(seed ^ 0x57A5_1AC5);
    let mut case = 0usize;
    // mem: UTF-16 sources
    for &a in &ascii_runs(thorough) {
        for t in tails16() {
            let mut w: Vec<u16> = vec![0x61; a];
            w.extend_from_slice(&t);
            let full = utf8_len16(&w);
            let src = Src::W(w.clone());
            for len in dst_lens(&mut rng, a, full, thorough) {
                case += 1;
                let pats: Vec<usize> = if thorough { vec![0, 1, 2] } else { vec![case % 3] };
                for pat in pats {
                    let before = make_dst(len, pat, case % 4);
                    run_case(out, props, Fun::U16StrP, &src, &before);
                    if len >= w.len() * 3 || (case % 16 == 0 && len + 1 == w.len() * 3) {
                        // the non-partial wrapper (and, rarely, its documented panic one byte short)
                        run_case(out, props, Fun::U16Str, &src, &before);
                    }
                }
            }
        }
    }
    // mem: Latin1 sources
    for &a in &ascii_runs(thorough) {
        for t in tails8() {
            let mut b: Vec<u8> = vec![0x61; a];
            b.extend_from_slice(&t);
            let full = b.iter().map(|&x| if x < 0x80 { 1 } else { 2 }).sum::<usize>();
            let src = Src::B(b.clone());
            for len in dst_lens(&mut rng, a, full, thorough) {
                case += 1;
                let pats: Vec<usize> = if thorough { vec![0, 1, 2] } else { vec![case % 3] };
                for pat in pats {
                    let before = make_dst(len, pat, case % 4);
                    run_case(out, props, Fun::L1StrP, &src, &before);
                    if len >= b.len() * 2 || (case % 16 == 0 && len + 1 == b.len() * 2) {
                        run_case(out, props, Fun::L1Str, &src, &before);
                    }
                }
            }
        }
    }
    // decoders (C05 only: C15 is about `mem`)
    if prop == "C05" {
        for ds in dec_sources() {
            let e = Encoding::for_label(ds.enc.as_bytes()).expect("harness: label");
            for s in &ds.srcs {
                let full = {
                    let (cow, _) = e.decode_without_bom_handling(s);
                    cow.len()
                };
                let a = s.iter().take_while(|&&b| b == b'a').count();
                for len in dst_lens(&mut rng, a, full, thorough) {
                    case += 1;
                    let pats: Vec<usize> = if thorough { vec![0, 1, 2] } else { vec![case % 3] };
                    for pat in pats {
                        let before = make_dst(len, pat, case % 4);
                        let repl = if thorough { vec![true, false] } else { vec![case % 2 == 0] };
                        for r in repl {
                            run_case(out, props, Fun::Dec(e, r, false), &Src::B(s.clone()), &before);
                        }
                    }
                }
            }
        }
    }
    // decoders with BOM sniffing: `self.encoding` (which decides the stride zeroing) is the encoding after the
    // BOM decision — a UTF-8 BOM switches a legacy decoder to UTF-8 (no stride zeroing), a UTF-16 BOM switches
    // the UTF-8 decoder to UTF-16 (stride zeroing), an incomplete BOM is replayed through the nominal decoder
    if prop == "C05" {
        let boms: [&[u8]; 6] = [&[0xEF, 0xBB, 0xBF], &[0xFF, 0xFE], &[0xFE, 0xFF], &[0xEF, 0xBB], &[0xEF], &[]];
        for label in ["UTF-8", "windows-1252", "Shift_JIS", "UTF-16BE"] {
            let e = Encoding::for_label(label.as_bytes()).expect("harness: label");
            for bom in boms.iter() {
                for body in [&b"aaaaaaaaaaaaaaa\xC3\xA4\xE3\x81\x82"[..], &b"a\0a\0a\0a\0a\0a\0a\0a\0a\0a\0a\0a\0a\0a\0a\0a\0\xE4\0\x42\x30"[..], &b"\x82\xA0"[..]] {
                    let mut s: Vec<u8> = bom.to_vec();
                    s.extend_from_slice(body);
                    let full = {
                        let (cow, _, _) = e.decode(&s);
                        cow.len()
                    };
                    let lens: Vec<usize> = if thorough { (0..=(full + 2 * MAX_STRIDE_SIZE + 5)).collect() } else { vec![full.saturating_sub(3), full, full + 3, full + MAX_STRIDE_SIZE + 2, full + 2 * MAX_STRIDE_SIZE + 3] };
                    for len in lens {
                        case += 1;
                        let before = make_dst(len, case % 3, case % 4);
                        run_case(out, props, Fun::Dec(e, case % 2 == 0, true), &Src::B(s.clone()), &before);
                    }
                }
            }
        }
    }
    let _ = STR_PATS;
    true
}

pub fn replay(toks: &[&str], out: &mut Out) -> bool {
    if toks.len() != 5 || toks[0] != "zerotail" {
        return false;
    }
    let f = match Fun::from_name(toks[1]) {
        Some(f) => f,
        None => return false,
    };
    let before = unhex(toks[3]);
    if std::str::from_utf8(&before).is_err() {
        // not a `&mut str`
        return false;
    }
    let src = if f.src16() { Src::W(unhex16(toks[4])) } else { Src::B(unhex(toks[4])) };
    run_case(out, &["C05", "C15"], f, &src, &before);
    true
}
