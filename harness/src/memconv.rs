//! C15: the conversions of `encoding_rs::mem` between UTF-8, UTF-16 and Latin1.
//!
//! Operation lines: `mem <fn> <dstlen> <src> => <result>` (see `run_case`).
//! Every call is made on a destination slice placed inside a larger guarded
//! buffer (fill 0xA5 / 0xA5A5) at a varying alignment; the oracles are written
//! against `std` only (`String::from_utf8_lossy`, `char::decode_utf16`, ...).
use crate::util::*;
use encoding_rs::mem;
use std::borrow::Cow;
use std::collections::{BTreeMap, BTreeSet, HashMap};
use std::panic::AssertUnwindSafe;

const PROP: &str = "C15";
const GUARD: usize = 32;
const MAXLEN: usize = 160;
const N_SHAPES: usize = 21;
const FILL8: u8 = 0xA5;
const FILL16: u16 = 0xA5A5;
/// valid UTF-8 pattern (with 2-, 3- and 4-byte characters) used to pre-fill `&mut str` destinations
const STR_PAT: &str = "\u{A5}\u{20AC}\u{10348}x";

// ---------------------------------------------------------------------------
// functions under test
// ---------------------------------------------------------------------------

#[derive(Clone, Copy, PartialEq, Eq, Debug)]
enum F {
    U8U16,
    StrU16,
    U8U16NoRepl,
    U16U8P,
    U16U8,
    U16StrP,
    U16Str,
    L1U16,
    L1U8P,
    L1U8,
    L1StrP,
    L1Str,
    U8L1,
    U16L1,
    DecL1,
    EncL1,
    Ensure,
    CpAA,
    CpABL,
    CpBLA,
}

#[derive(Clone, Copy, PartialEq, Eq)]
enum DstKind {
    None,
    U8,
    Str,
    U16,
    InPlace16,
}

const ALL_FNS: [F; 20] = [
    F::U8U16,
    F::StrU16,
    F::U8U16NoRepl,
    F::U16U8P,
    F::U16U8,
    F::U16StrP,
    F::U16Str,
    F::L1U16,
    F::L1U8P,
    F::L1U8,
    F::L1StrP,
    F::L1Str,
    F::U8L1,
    F::U16L1,
    F::DecL1,
    F::EncL1,
    F::Ensure,
    F::CpAA,
    F::CpABL,
    F::CpBLA,
];

impl F {
    fn name(self) -> &'static str {
        match self {
            F::U8U16 => "convert_utf8_to_utf16",
            F::StrU16 => "convert_str_to_utf16",
            F::U8U16NoRepl => "convert_utf8_to_utf16_without_replacement",
            F::U16U8P => "convert_utf16_to_utf8_partial",
            F::U16U8 => "convert_utf16_to_utf8",
            F::U16StrP => "convert_utf16_to_str_partial",
            F::U16Str => "convert_utf16_to_str",
            F::L1U16 => "convert_latin1_to_utf16",
            F::L1U8P => "convert_latin1_to_utf8_partial",
            F::L1U8 => "convert_latin1_to_utf8",
            F::L1StrP => "convert_latin1_to_str_partial",
            F::L1Str => "convert_latin1_to_str",
            F::U8L1 => "convert_utf8_to_latin1_lossy",
            F::U16L1 => "convert_utf16_to_latin1_lossy",
            F::DecL1 => "decode_latin1",
            F::EncL1 => "encode_latin1_lossy",
            F::Ensure => "ensure_utf16_validity",
            F::CpAA => "copy_ascii_to_ascii",
            F::CpABL => "copy_ascii_to_basic_latin",
            F::CpBLA => "copy_basic_latin_to_ascii",
        }
    }
    fn from_name(s: &str) -> Option<F> {
        ALL_FNS.iter().copied().find(|f| f.name() == s)
    }
    fn src_u16(self) -> bool {
        matches!(self, F::U16U8P | F::U16U8 | F::U16StrP | F::U16Str | F::U16L1 | F::Ensure | F::CpBLA)
    }
    /// the function writes into a `&mut str` or returns a `Cow<str>` (C05)
    fn yields_str(self) -> bool {
        matches!(self, F::U16StrP | F::U16Str | F::L1StrP | F::L1Str | F::DecL1)
    }
    fn needs_str_src(self) -> bool {
        matches!(self, F::StrU16 | F::EncL1)
    }
    fn dst_kind(self) -> DstKind {
        match self {
            F::DecL1 | F::EncL1 => DstKind::None,
            F::Ensure => DstKind::InPlace16,
            F::U8U16 | F::StrU16 | F::U8U16NoRepl | F::L1U16 | F::CpABL => DstKind::U16,
            F::U16StrP | F::U16Str | F::L1StrP | F::L1Str => DstKind::Str,
            _ => DstKind::U8,
        }
    }
    /// documented minimum destination length (None: no length precondition)
    fn min_dst(self, srclen: usize) -> Option<usize> {
        match self {
            F::U8U16 => Some(srclen + 1),
            F::StrU16 | F::U8U16NoRepl | F::L1U16 | F::U8L1 | F::U16L1 | F::CpAA | F::CpABL | F::CpBLA => {
                Some(srclen)
            }
            F::U16U8 | F::U16Str => Some(3 * srclen),
            F::L1U8 | F::L1Str => Some(2 * srclen),
            _ => None,
        }
    }
    /// documented always-sufficient destination length of the `_partial` forms
    fn partial_suff(self, srclen: usize) -> Option<usize> {
        match self {
            F::U16U8P | F::U16StrP => Some(3 * srclen),
            F::L1U8P | F::L1StrP => Some(2 * srclen),
            _ => None,
        }
    }
}

#[derive(Clone, PartialEq, Eq, Hash)]
enum Src {
    B(Vec<u8>),
    W(Vec<u16>),
}

impl Src {
    fn len(&self) -> usize {
        match self {
            Src::B(v) => v.len(),
            Src::W(v) => v.len(),
        }
    }
    fn hex(&self) -> String {
        match self {
            Src::B(v) => hex(v),
            Src::W(v) => hex16(v),
        }
    }
}

enum Ret {
    RW(usize, usize),
    W(usize),
    Opt(Option<usize>),
    Unit,
}

// ---------------------------------------------------------------------------
// bookkeeping
// ---------------------------------------------------------------------------

struct Ctx {
    /// hash(lhs) -> hash(rhs): op lines are emitted once per lhs; repeated
    /// executions (other alignments) must give the same rhs
    seen: HashMap<u64, u64>,
    lines: BTreeMap<&'static str, usize>,
    calls: BTreeMap<&'static str, usize>,
    /// number of calls that modified destination elements beyond `written`
    beyond: BTreeMap<&'static str, usize>,
    beyond_example: BTreeMap<&'static str, String>,
    align_ctr: usize,
    /// oracle failures already reported per (function, failure class): each
    /// class is capped so that a frequent one (F5 in the simd build) cannot
    /// use up `Out`'s global limit and hide the others
    fail_classes: HashMap<String, usize>,
    /// destination pre-fill variant (C18): 0 = 0xA5 / STR_PAT, 1 = 0x00 / ASCII, 2 = 0xFF / another
    /// multi-byte pattern (character boundaries and continuation bytes at other offsets)
    fill_variant: usize,
    /// C18 mode: every case is executed with all three fills; only differences are reported, under C18
    c18: bool,
    /// C05 / C06 mode: the same generator, but only the failures those properties are about are
    /// reported, under that property id (C05: a `&mut str` / `String` / `Cow<str>` left or returned
    /// invalid; C06: out-of-bounds writes, counts beyond the buffers, panics within the documented preconditions)
    only: Option<&'static str>,
}

impl Ctx {
    fn new() -> Ctx {
        Ctx {
            seen: HashMap::new(),
            lines: BTreeMap::new(),
            calls: BTreeMap::new(),
            beyond: BTreeMap::new(),
            beyond_example: BTreeMap::new(),
            align_ctr: 0,
            fail_classes: HashMap::new(),
            fill_variant: 0,
            c18: false,
            only: None,
        }
    }
    fn next_align(&mut self) -> usize {
        self.align_ctr += 1;
        self.align_ctr % 16
    }
}

fn h64(s: &str) -> u64 {
    use std::hash::{Hash, Hasher};
    let mut h = std::collections::hash_map::DefaultHasher::new();
    s.hash(&mut h);
    h.finish()
}

// ---------------------------------------------------------------------------
// guarded execution
// ---------------------------------------------------------------------------

struct Guarded<T> {
    ret: Result<Ret, String>,
    dst: Vec<T>,
    init: Vec<T>,
    oob: Option<String>,
}

fn guarded<T: Copy + PartialEq + std::fmt::LowerHex>(
    fill: T,
    buflen: usize,
    align: usize,
    init: &mut dyn FnMut(&mut [T]),
    call: &mut dyn FnMut(&mut [T]) -> Ret,
) -> Guarded<T> {
    let sz = std::mem::size_of::<T>();
    let total = 2 * GUARD + 48 + buflen;
    let mut backing: Vec<T> = vec![fill; total];
    let base = backing.as_ptr() as usize;
    // elements needed to reach a 16-byte boundary, so that `align` is an
    // offset relative to real 16-byte alignment
    let adj = ((16 - base % 16) % 16) / sz;
    let off = GUARD + adj + align % 16;
    init(&mut backing[off..off + buflen]);
    let initv = backing[off..off + buflen].to_vec();
    let ret = {
        let d = &mut backing[off..off + buflen];
        catch(AssertUnwindSafe(|| call(d)))
    };
    let mut oob = None;
    for (i, x) in backing.iter().enumerate() {
        if (i < off || i >= off + buflen) && *x != fill {
            oob = Some(format!(
                "index {} relative to dst start (dst len {}) holds {:x}",
                i as isize - off as isize,
                buflen,
                x
            ));
            break;
        }
    }
    Guarded { ret, dst: backing[off..off + buflen].to_vec(), init: initv, oob }
}

/// copy of `src` at a varying offset inside a fresh allocation
fn place<T: Copy + Default>(src: &[T], align: usize) -> (Vec<T>, usize) {
    let o = (align * 5 + 1) % 16;
    let mut v = vec![T::default(); o];
    v.extend_from_slice(src);
    (v, o)
}

pub(crate) const STR_PATS: [&str; 3] = [STR_PAT, "x", "\u{20AC}\u{E9}\u{10348}\u{A5}\u{3042}"];
const FILLS8: [u8; 3] = [FILL8, 0x00, 0xFF];
const FILLS16: [u16; 3] = [FILL16, 0x0000, 0xFFFF];

pub(crate) fn fill_str_pattern(d: &mut [u8], variant: usize) {
    let mut i = 0;
    'o: loop {
        for ch in STR_PATS[variant % 3].chars() {
            let l = ch.len_utf8();
            if i + l > d.len() {
                break 'o;
            }
            ch.encode_utf8(&mut d[i..i + l]);
            i += l;
        }
    }
    while i < d.len() {
        d[i] = b'x';
        i += 1;
    }
}

/// first index >= `from` where `now` differs from `init`
fn first_mod<T: Copy + PartialEq>(now: &[T], init: &[T], from: usize) -> Option<usize> {
    (from.min(now.len())..now.len()).find(|&i| now[i] != init[i])
}

// ---------------------------------------------------------------------------
// reference computations (std only)
// ---------------------------------------------------------------------------

fn is_high(u: u16) -> bool {
    (0xD800..=0xDBFF).contains(&u)
}
fn is_low(u: u16) -> bool {
    (0xDC00..=0xDFFF).contains(&u)
}

/// lossy decoding of UTF-16: (char, code units consumed)
fn utf16_lossy(src: &[u16]) -> Vec<(char, usize)> {
    char::decode_utf16(src.iter().copied())
        .map(|r| match r {
            Ok(c) => (c, c.len_utf16()),
            Err(_) => ('\u{FFFD}', 1),
        })
        .collect()
}

fn latin1_chars(src: &[u8]) -> Vec<(char, usize)> {
    src.iter().map(|&b| (b as char, 1)).collect()
}

fn utf8_of(chars: &[(char, usize)]) -> Vec<u8> {
    let mut s = String::new();
    for &(c, _) in chars {
        s.push(c);
    }
    s.into_bytes()
}

/// valid UTF-8 whose characters are all <= U+00FF
fn is_latin1_utf8(src: &[u8]) -> bool {
    match std::str::from_utf8(src) {
        Ok(s) => s.chars().all(|c| (c as u32) <= 0xFF),
        Err(_) => false,
    }
}

/// indices of unpaired surrogates, by a plain walk
fn unpaired_positions(src: &[u16]) -> Vec<usize> {
    let mut v = Vec::new();
    let mut i = 0;
    while i < src.len() {
        let u = src[i];
        if is_high(u) && i + 1 < src.len() && is_low(src[i + 1]) {
            i += 2;
        } else {
            if is_high(u) || is_low(u) {
                v.push(i);
            }
            i += 1;
        }
    }
    v
}

fn first_non_ascii8(src: &[u8]) -> usize {
    src.iter().position(|&b| b >= 0x80).unwrap_or(src.len())
}
fn first_non_ascii16(src: &[u16]) -> usize {
    src.iter().position(|&b| b >= 0x80).unwrap_or(src.len())
}

#[allow(clippy::too_many_arguments)]
fn check_partial(
    fails: &mut Vec<String>,
    chars: &[(char, usize)],
    srclen: usize,
    dstlen: usize,
    suff: usize,
    r: usize,
    w: usize,
    wbytes: &[u8],
    enc_prefix: &dyn Fn(usize) -> Vec<u8>,
) {
    if r > srclen || w > dstlen {
        fails.push(format!(
            "read/written out of range: read {} (src len {}) written {} (dst len {})",
            r, srclen, w, dstlen
        ));
        return;
    }
    let want = enc_prefix(r);
    if want != wbytes {
        fails.push(format!(
            "wrong bytes: written prefix {} but UTF-8 of the lossy decoding of src[..{}] is {}",
            hex(wbytes),
            r,
            hex(&want)
        ));
    }
    // greedy expectation (TextEncoder.encodeInto): take whole characters while they fit
    let (mut er, mut ew) = (0usize, 0usize);
    for &(c, n) in chars {
        let l = c.len_utf8();
        if ew + l > dstlen {
            break;
        }
        ew += l;
        er += n;
    }
    if (r, w) != (er, ew) {
        if r < er {
            fails.push(format!(
                "not maximal: read {} written {} but {} units / {} bytes fit into {}",
                r, w, er, ew, dstlen
            ));
        } else {
            fails.push(format!("read/written mismatch: got ({}, {}) expected ({}, {})", r, w, er, ew));
        }
    }
    if dstlen >= suff && r != srclen {
        fails.push(format!("destination of documented sufficient size {} but read {} != {}", dstlen, r, srclen));
    }
}

// ---------------------------------------------------------------------------
// one call: execute, guard checks, op line, oracle
// ---------------------------------------------------------------------------

fn run_case(out: &mut Out, cx: &mut Ctx, f: F, src: &Src, dstlen: usize, align: usize, emit: bool) {
    let variant = cx.fill_variant % 3;
    out.oracle_evals += 1;
    let name = f.name();
    *cx.calls.entry(name).or_insert(0) += 1;
    let lhs = format!("mem {} {} {}", name, dstlen, src.hex());
    let srclen = src.len();
    let too_short = matches!(f.min_dst(srclen), Some(m) if dstlen < m);
    let mut fails: Vec<String> = Vec::new();
    let rhs: String;
    // index from which destination modifications are "beyond written", if known
    let mut beyond: Option<(usize, String)> = None;

    let (b_store, b_off) = match src {
        Src::B(v) => place(v, align),
        _ => (Vec::new(), 0),
    };
    let (w_store, w_off) = match src {
        Src::W(v) => place(v, align),
        _ => (Vec::new(), 0),
    };
    let s8: &[u8] = &b_store[b_off..];
    let s16: &[u16] = &w_store[w_off..];

    let dbg_panic = match f {
        F::U8L1 | F::EncL1 => !is_latin1_utf8(s8),
        _ => false,
    };
    let expect_panic = too_short || dbg_panic;

    match f.dst_kind() {
        DstKind::None => {
            let r = catch(AssertUnwindSafe(|| match f {
                F::DecL1 => match mem::decode_latin1(s8) {
                    Cow::Borrowed(s) => (true, s.as_bytes().to_vec()),
                    Cow::Owned(s) => (false, s.into_bytes()),
                },
                F::EncL1 => match mem::encode_latin1_lossy(std::str::from_utf8(s8).unwrap()) {
                    Cow::Borrowed(s) => (true, s.to_vec()),
                    Cow::Owned(s) => (false, s),
                },
                _ => unreachable!(),
            }));
            match r {
                Err(msg) => {
                    rhs = "panic".to_string();
                    if !expect_panic {
                        fails.push(format!("unexpected panic {}: {}", name, msg));
                    }
                }
                Ok((borrowed, bytes)) => {
                    rhs = format!("{} {}", if borrowed { "b" } else { "o" }, hex(&bytes));
                    if expect_panic {
                        fails.push(format!(
                            "missing documented panic {}: input outside U+0000..U+00FF with debug assertions on",
                            name
                        ));
                    } else {
                        let ascii = s8.iter().all(|&b| b < 0x80);
                        if borrowed != ascii {
                            fails.push(format!("Cow borrowed={} but input all-ASCII={}", borrowed, ascii));
                        }
                        let want: Vec<u8> = match f {
                            F::DecL1 => s8.iter().map(|&b| b as char).collect::<String>().into_bytes(),
                            _ => std::str::from_utf8(s8).unwrap().chars().map(|c| c as u32 as u8).collect(),
                        };
                        if want != bytes {
                            fails.push(format!("wrong result {} expected {}", hex(&bytes), hex(&want)));
                        }
                        if f == F::DecL1 && std::str::from_utf8(&bytes).is_err() {
                            fails.push("decode_latin1 produced invalid UTF-8".to_string());
                        }
                    }
                }
            }
        }
        DstKind::U16 | DstKind::InPlace16 => {
            let inplace = f == F::Ensure;
            let buflen = if inplace { srclen } else { dstlen };
            let mut init = |d: &mut [u16]| {
                if inplace {
                    d.copy_from_slice(s16);
                }
            };
            let mut call = |d: &mut [u16]| -> Ret {
                match f {
                    F::U8U16 => Ret::W(mem::convert_utf8_to_utf16(s8, d)),
                    F::StrU16 => Ret::W(mem::convert_str_to_utf16(std::str::from_utf8(s8).unwrap(), d)),
                    F::U8U16NoRepl => Ret::Opt(mem::convert_utf8_to_utf16_without_replacement(s8, d)),
                    F::L1U16 => {
                        mem::convert_latin1_to_utf16(s8, d);
                        Ret::Unit
                    }
                    F::CpABL => Ret::W(mem::copy_ascii_to_basic_latin(s8, d)),
                    F::Ensure => {
                        mem::ensure_utf16_validity(d);
                        Ret::Unit
                    }
                    _ => unreachable!(),
                }
            };
            let g = guarded(FILLS16[variant], buflen, align, &mut init, &mut call);
            if let Some(o) = &g.oob {
                fails.push(format!("out-of-bounds write {} {}", name, o));
            }
            match &g.ret {
                Err(msg) => {
                    rhs = "panic".to_string();
                    if !expect_panic {
                        fails.push(format!("unexpected panic {}: {}", name, msg));
                    }
                }
                Ok(ret) => {
                    if expect_panic {
                        fails.push(format!("missing documented panic {}: dst len {} for src len {}", name, dstlen, srclen));
                    }
                    match (f, ret) {
                        (F::Ensure, Ret::Unit) => {
                            rhs = hex16(&g.dst);
                            let bad = unpaired_positions(s16);
                            let mut want = s16.to_vec();
                            for &i in &bad {
                                want[i] = 0xFFFD;
                            }
                            if g.dst != want {
                                fails.push(format!(
                                    "wrong rewrite: got {} expected {} (unpaired at {:?})",
                                    hex16(&g.dst),
                                    hex16(&want),
                                    bad
                                ));
                            }
                            if char::decode_utf16(g.dst.iter().copied()).any(|r| r.is_err()) {
                                fails.push("result still contains an unpaired surrogate".to_string());
                            }
                            let mut again = g.dst.clone();
                            let r2 = catch(AssertUnwindSafe(|| mem::ensure_utf16_validity(&mut again)));
                            if r2.is_err() || again != g.dst {
                                fails.push("not idempotent: second application changed the buffer or panicked".to_string());
                            }
                        }
                        (F::L1U16, Ret::Unit) => {
                            let n = srclen.min(g.dst.len());
                            rhs = format!("{} {}", srclen, hex16(&g.dst[..n]));
                            if !expect_panic {
                                let want: Vec<u16> = s8.iter().map(|&b| b as u16).collect();
                                if g.dst[..n] != want[..] {
                                    fails.push(format!("wrong units {} expected {}", hex16(&g.dst[..n]), hex16(&want)));
                                }
                                beyond = first_mod(&g.dst, &g.init, srclen)
                                    .map(|i| (i, format!("src len {} dst len {} index {}", srclen, dstlen, i)));
                            }
                        }
                        (F::U8U16NoRepl, Ret::Opt(None)) => {
                            rhs = "none".to_string();
                            if !expect_panic && std::str::from_utf8(s8).is_ok() {
                                fails.push("returned None for valid UTF-8".to_string());
                            }
                        }
                        (_, Ret::W(w)) | (_, Ret::Opt(Some(w))) => {
                            let w = *w;
                            let wc = w.min(g.dst.len());
                            rhs = format!("{} {}", w, hex16(&g.dst[..wc]));
                            if !expect_panic {
                                if w > g.dst.len() {
                                    fails.push(format!("written {} exceeds dst len {}", w, g.dst.len()));
                                }
                                let want: Option<Vec<u16>> = match f {
                                    F::U8U16 => Some(String::from_utf8_lossy(s8).encode_utf16().collect()),
                                    F::StrU16 => Some(std::str::from_utf8(s8).unwrap().encode_utf16().collect()),
                                    F::U8U16NoRepl => match std::str::from_utf8(s8) {
                                        Ok(s) => Some(s.encode_utf16().collect()),
                                        Err(_) => None,
                                    },
                                    F::CpABL => {
                                        let n = first_non_ascii8(s8);
                                        Some(s8[..n].iter().map(|&b| b as u16).collect())
                                    }
                                    _ => unreachable!(),
                                };
                                match want {
                                    None => fails.push(format!("returned Some({}) for invalid UTF-8", w)),
                                    Some(want) => {
                                        if w != want.len() || g.dst[..wc] != want[..] {
                                            fails.push(format!(
                                                "wrong output: written {} units {} expected {} units {}",
                                                w,
                                                hex16(&g.dst[..wc]),
                                                want.len(),
                                                hex16(&want)
                                            ));
                                        }
                                    }
                                }
                                beyond = first_mod(&g.dst, &g.init, w)
                                    .map(|i| (i, format!("src len {} dst len {} written {} index {}", srclen, dstlen, w, i)));
                            }
                        }
                        _ => {
                            rhs = "?".to_string();
                            fails.push("harness: unexpected return shape".to_string());
                        }
                    }
                }
            }
        }
        DstKind::U8 | DstKind::Str => {
            let is_str = f.dst_kind() == DstKind::Str;
            let mut init = |d: &mut [u8]| {
                if is_str {
                    fill_str_pattern(d, variant);
                }
            };
            let mut call = |d: &mut [u8]| -> Ret {
                match f {
                    F::U16U8P => {
                        let (r, w) = mem::convert_utf16_to_utf8_partial(s16, d);
                        Ret::RW(r, w)
                    }
                    F::U16U8 => Ret::W(mem::convert_utf16_to_utf8(s16, d)),
                    F::U16StrP => {
                        let s = std::str::from_utf8_mut(d).expect("harness: dst pattern");
                        let (r, w) = mem::convert_utf16_to_str_partial(s16, s);
                        Ret::RW(r, w)
                    }
                    F::U16Str => {
                        let s = std::str::from_utf8_mut(d).expect("harness: dst pattern");
                        Ret::W(mem::convert_utf16_to_str(s16, s))
                    }
                    F::L1U8P => {
                        let (r, w) = mem::convert_latin1_to_utf8_partial(s8, d);
                        Ret::RW(r, w)
                    }
                    F::L1U8 => Ret::W(mem::convert_latin1_to_utf8(s8, d)),
                    F::L1StrP => {
                        let s = std::str::from_utf8_mut(d).expect("harness: dst pattern");
                        let (r, w) = mem::convert_latin1_to_str_partial(s8, s);
                        Ret::RW(r, w)
                    }
                    F::L1Str => {
                        let s = std::str::from_utf8_mut(d).expect("harness: dst pattern");
                        Ret::W(mem::convert_latin1_to_str(s8, s))
                    }
                    F::U8L1 => Ret::W(mem::convert_utf8_to_latin1_lossy(s8, d)),
                    F::U16L1 => {
                        mem::convert_utf16_to_latin1_lossy(s16, d);
                        Ret::Unit
                    }
                    F::CpAA => Ret::W(mem::copy_ascii_to_ascii(s8, d)),
                    F::CpBLA => Ret::W(mem::copy_basic_latin_to_ascii(s16, d)),
                    _ => unreachable!(),
                }
            };
            let g = guarded(FILLS8[variant], dstlen, align, &mut init, &mut call);
            if let Some(o) = &g.oob {
                fails.push(format!("out-of-bounds write {} {}", name, o));
            }
            match &g.ret {
                Err(msg) => {
                    rhs = "panic".to_string();
                    if !expect_panic {
                        fails.push(format!("unexpected panic {}: {}", name, msg));
                    }
                }
                Ok(ret) => {
                    if expect_panic {
                        if too_short {
                            fails.push(format!(
                                "missing documented panic {}: dst len {} for src len {}",
                                name, dstlen, srclen
                            ));
                        } else {
                            fails.push(format!(
                                "missing documented panic {}: input outside U+0000..U+00FF with debug assertions on",
                                name
                            ));
                        }
                    }
                    match (f, ret) {
                        (F::U16L1, Ret::Unit) => {
                            let n = srclen.min(g.dst.len());
                            rhs = format!("{} {}", srclen, hex(&g.dst[..n]));
                            // only specified for Latin1-only sources
                            if !expect_panic && s16.iter().all(|&u| u <= 0xFF) {
                                let want: Vec<u8> = s16.iter().map(|&u| u as u8).collect();
                                if g.dst[..n] != want[..] {
                                    fails.push(format!("wrong bytes {} expected {}", hex(&g.dst[..n]), hex(&want)));
                                }
                                beyond = first_mod(&g.dst, &g.init, srclen)
                                    .map(|i| (i, format!("src len {} dst len {} index {}", srclen, dstlen, i)));
                            }
                        }
                        (_, Ret::RW(r, w)) => {
                            let (r, w) = (*r, *w);
                            let wc = w.min(g.dst.len());
                            rhs = format!("{} {} {}", r, w, hex(&g.dst[..wc]));
                            let suff = f.partial_suff(srclen).unwrap();
                            match f {
                                F::U16U8P | F::U16StrP => {
                                    let chars = utf16_lossy(s16);
                                    check_partial(
                                        &mut fails,
                                        &chars,
                                        srclen,
                                        dstlen,
                                        suff,
                                        r,
                                        w,
                                        &g.dst[..wc],
                                        &|n| utf8_of(&utf16_lossy(&s16[..n])),
                                    );
                                    if r > 0 && r < srclen && is_high(s16[r - 1]) && is_low(s16[r]) {
                                        fails.push(format!(
                                            "split surrogate pair: read {} ends between {:04x} and {:04x}",
                                            r,
                                            s16[r - 1],
                                            s16[r]
                                        ));
                                    }
                                }
                                _ => {
                                    let chars = latin1_chars(s8);
                                    check_partial(
                                        &mut fails,
                                        &chars,
                                        srclen,
                                        dstlen,
                                        suff,
                                        r,
                                        w,
                                        &g.dst[..wc],
                                        &|n| utf8_of(&latin1_chars(&s8[..n])),
                                    );
                                }
                            }
                            let m = first_mod(&g.dst, &g.init, w);
                            if f == F::U16U8P {
                                if let Some(i) = m {
                                    let idx: Vec<String> = (w.min(g.dst.len())..g.dst.len())
                                        .filter(|&j| g.dst[j] != g.init[j])
                                        .take(8)
                                        .map(|j| format!("{}:{:02x}", j, g.dst[j]))
                                        .collect();
                                    fails.push(format!(
                                        "beyond-written convert_utf16_to_utf8_partial: written {} dst len {} first modified index {} (index:value {})",
                                        w,
                                        dstlen,
                                        i,
                                        idx.join(",")
                                    ));
                                }
                            } else {
                                beyond = m.map(|i| {
                                    (i, format!("src len {} dst len {} written {} index {}", srclen, dstlen, w, i))
                                });
                            }
                        }
                        (_, Ret::W(w)) => {
                            let w = *w;
                            let wc = w.min(g.dst.len());
                            rhs = format!("{} {}", w, hex(&g.dst[..wc]));
                            if !expect_panic {
                                if w > g.dst.len() {
                                    fails.push(format!("written {} exceeds dst len {}", w, g.dst.len()));
                                }
                                let want: Vec<u8> = match f {
                                    F::U16U8 | F::U16Str => utf8_of(&utf16_lossy(s16)),
                                    F::L1U8 | F::L1Str => utf8_of(&latin1_chars(s8)),
                                    F::U8L1 => {
                                        std::str::from_utf8(s8).unwrap().chars().map(|c| c as u32 as u8).collect()
                                    }
                                    F::CpAA => s8[..first_non_ascii8(s8)].to_vec(),
                                    F::CpBLA => s16[..first_non_ascii16(s16)].iter().map(|&u| u as u8).collect(),
                                    _ => unreachable!(),
                                };
                                if w != want.len() || g.dst[..wc] != want[..] {
                                    fails.push(format!(
                                        "wrong output: written {} bytes {} expected {} bytes {}",
                                        w,
                                        hex(&g.dst[..wc]),
                                        want.len(),
                                        hex(&want)
                                    ));
                                }
                                beyond = first_mod(&g.dst, &g.init, w)
                                    .map(|i| (i, format!("src len {} dst len {} written {} index {}", srclen, dstlen, w, i)));
                            }
                        }
                        _ => {
                            rhs = "?".to_string();
                            fails.push("harness: unexpected return shape".to_string());
                        }
                    }
                    if is_str {
                        // the type-system promise: the whole destination is still a str
                        if let Err(e) = std::str::from_utf8(&g.dst) {
                            let from = e.valid_up_to();
                            let to = (from + 8).min(g.dst.len());
                            fails.push(format!(
                                "&mut str destination left invalid UTF-8 (valid up to {} of {}, bytes there {}, before the call {})",
                                from,
                                g.dst.len(),
                                hex(&g.dst[from..to]),
                                hex(&g.init[from..to])
                            ));
                        }
                        let w = match ret {
                            Ret::RW(_, w) | Ret::W(w) => (*w).min(g.dst.len()),
                            _ => 0,
                        };
                        if std::str::from_utf8(&g.dst[..w]).is_err() {
                            fails.push(format!("dst[..written] (written {}) is not valid UTF-8", w));
                        }
                    }
                }
            }
        }
    }

    if let Some((_, ex)) = beyond {
        *cx.beyond.entry(name).or_insert(0) += 1;
        cx.beyond_example.entry(name).or_insert(ex);
    }
    if emit {
        let hl = h64(&lhs);
        let hr = h64(&rhs);
        match cx.seen.get(&hl) {
            Some(&prev) => {
                if prev != hr {
                    if cx.c18 && variant != 0 {
                        out.fail("C18", &lhs, format!("{} results depend on the destination's old contents: with pre-fill variant {} (0x{:02X} / str pattern {:?}) the call returned {}", name, variant, FILLS8[variant], STR_PATS[variant], rhs));
                    } else {
                        fails.push(format!("result differs between executions/alignments: now {} (align {})", rhs, align));
                    }
                }
            }
            None => {
                cx.seen.insert(hl, hr);
                *cx.lines.entry(name).or_insert(0) += 1;
                out.op(lhs.clone(), rhs);
            }
        }
    }
    for m in fails {
        // class = function + first two words of the message
        let class = format!("{} {}", name, m.split(' ').take(2).collect::<Vec<_>>().join(" "));
        let n = cx.fail_classes.entry(class).or_insert(0);
        *n += 1;
        if *n <= 12 && !cx.c18 {
            match cx.only {
                None => out.fail(PROP, &lhs, m),
                Some("C05") => {
                    if m.contains("invalid UTF-8") || m.contains("not valid UTF-8") {
                        out.fail("C05", &lhs, m);
                    }
                }
                Some("C06") => {
                    if m.starts_with("out-of-bounds write") || m.starts_with("unexpected panic") || m.contains("exceeds dst len") || m.starts_with("read/written mismatch") && m.contains("exceeds") {
                        out.fail("C06", &lhs, m);
                    }
                }
                Some(_) => {}
            }
        }
    }
}

// ---------------------------------------------------------------------------
// source generation
// ---------------------------------------------------------------------------

struct Alpha<U> {
    ascii: Vec<U>,
    a: U,
    classes: Vec<Vec<Vec<U>>>,
    /// classes used by the four "mostly one class" shapes
    mono: Vec<usize>,
    edge_start: Vec<Vec<U>>,
    edge_end: Vec<Vec<U>>,
    f5_item: Vec<U>,
    /// an item that does not fit may be cut (produces truncated sequences / lone high surrogates)
    trunc_ok: bool,
}

impl<U: Copy> Alpha<U> {
    fn items(&self) -> Vec<&Vec<U>> {
        self.classes.iter().flat_map(|c| c.iter()).collect()
    }
    fn ascii_at(&self, i: usize, salt: usize) -> U {
        let k = i + salt;
        if k % 3 == 0 {
            self.ascii[(k / 3) % self.ascii.len()]
        } else {
            self.a
        }
    }
    fn pad_ascii(&self, v: &mut Vec<U>, upto: usize, salt: usize) {
        while v.len() < upto {
            let i = v.len();
            v.push(self.ascii_at(i, salt));
        }
    }
    fn push_item(&self, v: &mut Vec<U>, item: &[U], len: usize) -> bool {
        let rem = len - v.len();
        if item.len() <= rem {
            v.extend_from_slice(item);
            true
        } else if self.trunc_ok && rem > 0 {
            v.extend_from_slice(&item[..rem]);
            true
        } else {
            false
        }
    }
    fn build(&self, len: usize, shape: usize, salt: usize, rng: &mut Rng) -> Vec<U> {
        let items = self.items();
        let n = items.len();
        let mut v: Vec<U> = Vec::with_capacity(len);
        match shape % N_SHAPES {
            0 => self.pad_ascii(&mut v, len, salt),
            s @ 1..=11 => {
                if len > 0 {
                    let tbl = [0, 1, 14, 15, 16, 17, 31, 32, 33, len.saturating_sub(2), len - 1];
                    let mut p = tbl[s - 1];
                    if p >= len {
                        p %= len;
                    }
                    self.pad_ascii(&mut v, p, salt);
                    let start = salt + len * 3 + s * 7;
                    for k in 0..n {
                        if self.push_item(&mut v, items[(start + k) % n], len) {
                            break;
                        }
                    }
                    self.pad_ascii(&mut v, len, salt);
                }
            }
            s @ 12..=15 => {
                let c = &self.classes[self.mono[(s - 12) % self.mono.len()]];
                let mut j = salt;
                while v.len() < len {
                    if !self.push_item(&mut v, &c[j % c.len()], len) {
                        self.pad_ascii(&mut v, len, salt);
                    }
                    j += 1;
                }
            }
            s @ (16 | 17 | 20) => {
                let pct = match s {
                    16 => 80,
                    17 => 20,
                    _ => 50,
                };
                while v.len() < len {
                    if rng.chance(pct, 100) {
                        // runs of ASCII so that the 16-unit kernels get going
                        let run = 1 + rng.below(if s == 16 { 24 } else { 4 });
                        for _ in 0..run {
                            if v.len() < len {
                                let u = if rng.chance(1, 3) { *rng.pick(&self.ascii) } else { self.a };
                                v.push(u);
                            }
                        }
                    } else {
                        let c = &self.classes[rng.below(self.classes.len())];
                        let it = &c[rng.below(c.len())];
                        if !self.push_item(&mut v, it, len) {
                            v.push(self.a);
                        }
                    }
                }
            }
            18 => {
                // "aaaaa" followed by U+3042 (or the alphabet's stand-in) repeated
                while v.len() < len && v.len() < 5 {
                    v.push(self.a);
                }
                while v.len() < len {
                    if !self.push_item(&mut v, &self.f5_item, len) {
                        v.push(self.a);
                    }
                }
            }
            _ => {
                // 19: something at the very start and something at the very end
                let st = &self.edge_start[salt % self.edge_start.len()];
                let en = &self.edge_end[(salt / 2 + len) % self.edge_end.len()];
                if st.len() + en.len() <= len {
                    v.extend_from_slice(st);
                    self.pad_ascii(&mut v, len - en.len(), salt);
                    v.extend_from_slice(en);
                } else if en.len() <= len {
                    self.pad_ascii(&mut v, len - en.len(), salt);
                    v.extend_from_slice(en);
                } else {
                    if !self.push_item(&mut v, st, len) {
                        self.pad_ascii(&mut v, len, salt);
                    }
                    self.pad_ascii(&mut v, len, salt);
                }
            }
        }
        debug_assert_eq!(v.len(), len);
        v
    }
}

fn c8(c: u32) -> Vec<u8> {
    char::from_u32(c).unwrap().to_string().into_bytes()
}
fn c16(c: u32) -> Vec<u16> {
    char::from_u32(c).unwrap().to_string().encode_utf16().collect()
}

struct Alphas {
    utf16: Alpha<u16>,
    utf16_latin1: Alpha<u16>,
    utf8_any: Alpha<u8>,
    utf8_valid: Alpha<u8>,
    utf8_latin1: Alpha<u8>,
    latin1: Alpha<u8>,
}

impl Alphas {
    fn new() -> Alphas {
        let ascii8: Vec<u8> = vec![0x20, 0x2C, 0x30, 0x61, 0x7A, 0x7F, 0x00];
        let ascii16: Vec<u16> = ascii8.iter().map(|&b| b as u16).collect();
        let latin1_cps = [0x80u32, 0xA0, 0xE4, 0xFF];
        let two_cps = [0x100u32, 0x7FF];
        let bmp_cps = [0x800u32, 0x3042, 0xD7FF, 0xE000, 0xFFFD, 0xFFFF];
        let astral_cps = [0x10000u32, 0x1F4A9, 0x10FFFF];

        let w = |cps: &[u32]| -> Vec<Vec<u16>> { cps.iter().map(|&c| c16(c)).collect() };
        let b = |cps: &[u32]| -> Vec<Vec<u8>> { cps.iter().map(|&c| c8(c)).collect() };

        let surrogate_junk: Vec<Vec<u16>> = vec![
            vec![0xD800],
            vec![0xDBFF],
            vec![0xDC00],
            vec![0xDFFF],
            vec![0xDC00, 0xD800],
            vec![0xDFFF, 0xDBFF],
            vec![0xD800, 0xD83D, 0xDCA9],
            vec![0xDBFF, 0xD800, 0xDC00],
            vec![0xD800, 0xD800],
            vec![0xDC00, 0xDC00],
            vec![0xD800, 0x61],
            vec![0xDBFF, 0x20],
            vec![0xDC00, 0x20],
            vec![0xD83D, 0x3042],
        ];
        let utf16 = Alpha {
            ascii: ascii16.clone(),
            a: 0x61,
            classes: vec![w(&latin1_cps), w(&two_cps), w(&bmp_cps), w(&astral_cps), surrogate_junk],
            mono: vec![0, 2, 3, 4],
            edge_start: vec![
                vec![0xDC00],
                vec![0xDFFF],
                vec![0xD800],
                vec![0xDBFF, 0xDFFF],
                vec![0xE4],
                vec![0x3042],
            ],
            edge_end: vec![
                vec![0xD800],
                vec![0xDBFF],
                vec![0xDC00],
                vec![0xD83D, 0xDCA9],
                vec![0x3042],
                vec![0xFF],
                vec![0xD83D],
            ],
            f5_item: vec![0x3042],
            trunc_ok: true,
        };
        let utf16_latin1 = Alpha {
            ascii: ascii16,
            a: 0x61,
            classes: vec![w(&latin1_cps)],
            mono: vec![0],
            edge_start: w(&latin1_cps),
            edge_end: w(&latin1_cps),
            f5_item: vec![0xE4],
            trunc_ok: false,
        };
        let invalid8: Vec<Vec<u8>> = vec![
            vec![0x80],
            vec![0xBF],
            vec![0xC0, 0x80],
            vec![0xC1, 0xBF],
            vec![0xF5, 0x80, 0x80, 0x80],
            vec![0xF8, 0x88, 0x80, 0x80, 0x80],
            vec![0xFF],
            vec![0xFE],
            vec![0xF7, 0xBF, 0xBF, 0xBF],
            vec![0xE0, 0x80, 0x80],
            vec![0xE0, 0x9F, 0xBF],
            vec![0xED, 0xA0, 0x80],
            vec![0xED, 0xBF, 0xBF],
            vec![0xF0, 0x80, 0x80, 0x80],
            vec![0xF0, 0x8F, 0xBF, 0xBF],
            vec![0xF4, 0x90, 0x80, 0x80],
            vec![0xC2],
            vec![0xE1],
            vec![0xE1, 0x80],
            vec![0xF1],
            vec![0xF1, 0x80],
            vec![0xF1, 0x80, 0x80],
            vec![0xC2, 0x20],
            vec![0xE1, 0x80, 0x61],
            vec![0xF1, 0x80, 0x80, 0xC3, 0xA4],
            vec![0xE1, 0xE1, 0x80, 0x80],
            vec![0xF1, 0x80, 0xF0, 0x9F, 0x92, 0xA9],
            vec![0xE0, 0x80],
            vec![0xF0, 0x80],
            vec![0xF0, 0x8F],
            vec![0xF4, 0x90],
            vec![0xC3, 0x28],
            vec![0xE3, 0x81, 0x28],
        ];
        let valid_classes8 = vec![b(&latin1_cps), b(&two_cps), b(&bmp_cps), b(&astral_cps)];
        let mut any_classes8 = valid_classes8.clone();
        any_classes8.push(invalid8);
        let all_valid8: Vec<Vec<u8>> = valid_classes8.iter().flat_map(|c| c.iter().cloned()).collect();
        let utf8_any = Alpha {
            ascii: ascii8.clone(),
            a: 0x61,
            classes: any_classes8,
            mono: vec![0, 2, 3, 4],
            edge_start: vec![vec![0x80], vec![0xBF], c8(0xE4), vec![0xF8, 0x88, 0x80, 0x80, 0x80], c8(0x10000)],
            edge_end: vec![
                vec![0xC2],
                vec![0xE1],
                vec![0xE1, 0x80],
                vec![0xF1],
                vec![0xF1, 0x80],
                vec![0xF1, 0x80, 0x80],
                vec![0xE0],
                vec![0xF4],
                c8(0x3042),
                c8(0x1F4A9),
                vec![0xED, 0xA0],
            ],
            f5_item: c8(0x3042),
            trunc_ok: true,
        };
        let utf8_valid = Alpha {
            ascii: ascii8.clone(),
            a: 0x61,
            classes: valid_classes8,
            mono: vec![0, 2, 3, 1],
            edge_start: all_valid8.clone(),
            edge_end: all_valid8,
            f5_item: c8(0x3042),
            trunc_ok: false,
        };
        let utf8_latin1 = Alpha {
            ascii: ascii8.clone(),
            a: 0x61,
            classes: vec![b(&latin1_cps)],
            mono: vec![0],
            edge_start: b(&latin1_cps),
            edge_end: b(&latin1_cps),
            f5_item: c8(0xE4),
            trunc_ok: false,
        };
        let hi: Vec<Vec<u8>> = vec![vec![0x80], vec![0xA0], vec![0xE4], vec![0xFF]];
        let hi2: Vec<Vec<u8>> = vec![vec![0xC2], vec![0xC3], vec![0xBF], vec![0x9F], vec![0xE0], vec![0xF0]];
        let latin1 = Alpha {
            ascii: ascii8,
            a: 0x61,
            classes: vec![hi.clone(), hi2],
            mono: vec![0, 1],
            edge_start: hi.clone(),
            edge_end: hi,
            f5_item: vec![0xE4],
            trunc_ok: false,
        };
        Alphas { utf16, utf16_latin1, utf8_any, utf8_valid, utf8_latin1, latin1 }
    }

    fn make(&self, f: F, len: usize, shape: usize, salt: usize, alt: usize, rng: &mut Rng) -> Src {
        match f {
            F::U8U16 | F::U8U16NoRepl => {
                if alt % 2 == 0 {
                    Src::B(self.utf8_any.build(len, shape, salt, rng))
                } else {
                    Src::B(self.utf8_valid.build(len, shape, salt, rng))
                }
            }
            F::StrU16 => Src::B(self.utf8_valid.build(len, shape, salt, rng)),
            F::U16U8P | F::U16U8 | F::U16StrP | F::U16Str | F::Ensure | F::CpBLA => {
                Src::W(self.utf16.build(len, shape, salt, rng))
            }
            F::L1U16 | F::L1U8P | F::L1U8 | F::L1StrP | F::L1Str | F::DecL1 => {
                Src::B(self.latin1.build(len, shape, salt, rng))
            }
            F::U8L1 | F::EncL1 => Src::B(self.utf8_latin1.build(len, shape, salt, rng)),
            F::U16L1 => Src::W(self.utf16_latin1.build(len, shape, salt, rng)),
            F::CpAA | F::CpABL => {
                if alt % 2 == 0 {
                    Src::B(self.latin1.build(len, shape, salt, rng))
                } else {
                    Src::B(self.utf8_any.build(len, shape, salt, rng))
                }
            }
        }
    }
}

// ---------------------------------------------------------------------------
// destination length selection
// ---------------------------------------------------------------------------

/// sampled destination lengths for a `_partial` function.
/// level 0: ~7, level 1: ~13, level 2: ~36
fn dst_samples(len: usize, suff: usize, level: usize, rng: &mut Rng) -> Vec<usize> {
    let mut s: BTreeSet<usize> = BTreeSet::new();
    let sub = |a: usize, b: usize| a.saturating_sub(b);
    let rand_mult = |rng: &mut Rng| 16 * (1 + rng.below(suff / 16 + 1));
    s.extend([0, 1, suff, sub(suff, 1), len, rng.below(suff + 1)]);
    let m = rand_mult(rng);
    s.insert(m + rng.below(3) - 1);
    if level >= 1 {
        s.extend([2, 3, sub(suff, 2), sub(suff, 3), len + 1, rng.below(suff + 1)]);
    }
    if level >= 2 {
        s.extend([4, 5, 6, sub(suff, 4), sub(suff, 5), sub(suff, 6), sub(len, 1), 2 * len]);
        s.extend([15, 16, 17, 31, 32, 33]);
        for _ in 0..2 {
            let m = rand_mult(rng);
            s.extend([m - 1, m, m + 1]);
        }
        for _ in 0..3 {
            s.insert(rng.below(suff + 1));
        }
        s.extend([suff + 1, suff + 17]);
    }
    s.into_iter().filter(|&d| d <= suff + 17).collect()
}

fn full_range(suff: usize) -> Vec<usize> {
    let mut v: Vec<usize> = (0..=suff).collect();
    v.push(suff + 1);
    v.push(suff + 17);
    v
}

// ---------------------------------------------------------------------------
// generator
// ---------------------------------------------------------------------------

fn run_aligned(out: &mut Out, cx: &mut Ctx, f: F, src: &Src, dstlen: usize, all_aligns: bool, emit: bool) {
    if all_aligns {
        for a in 0..16 {
            run_case(out, cx, f, src, dstlen, a, emit);
        }
    } else {
        let a = cx.next_align();
        run_case(out, cx, f, src, dstlen, a, emit);
        if cx.c18 {
            // the same call into destinations with other old contents: same return values and
            // same written prefix required (compared through the `seen` table)
            for v in 1..3 {
                cx.fill_variant = v;
                run_case(out, cx, f, src, dstlen, a, emit);
            }
            cx.fill_variant = 0;
        }
    }
}

/// quick-tier plan of the `_partial` functions:
/// (variants with the full range for len <= 24, modulus of the rotating subset of longer
///  lengths that get the full range, sampled variants for the other lengths)
fn partial_quick_plan(f: F) -> (usize, usize, usize) {
    match f {
        F::U16U8P => (4, 8, 2),
        F::U16StrP => (2, 16, 1),
        F::L1U8P => (3, 8, 1),
        _ => (2, 16, 1),
    }
}

/// thorough-tier plan: (shapes per length with the full range, sampling level of the others)
fn partial_thorough_plan(f: F) -> (usize, usize) {
    match f {
        F::U16U8P => (2, 1),
        _ => (1, 0),
    }
}

fn shape_of(len: usize, k: usize, fidx: usize) -> usize {
    // k*8 is a permutation of 0..21, len*5 rotates the starting shape over the lengths
    (len * 5 + k * 8 + fidx * 3) % N_SHAPES
}

#[allow(clippy::too_many_arguments)]
fn gen_fn_len(
    out: &mut Out,
    cx: &mut Ctx,
    al: &Alphas,
    rng: &mut Rng,
    f: F,
    fidx: usize,
    len: usize,
    thorough: bool,
    seed: u64,
) {
    let all_aligns = thorough && len <= 8;
    let mk = |k: usize, rng: &mut Rng| -> Src {
        al.make(f, len, shape_of(len, k, fidx), len + k * 13 + fidx, len + k, rng)
    };
    if let Some(suff) = f.partial_suff(len) {
        if thorough {
            let (nfull, level) = partial_thorough_plan(f);
            for k in 0..N_SHAPES {
                let src = mk(k, rng);
                let dsts = if k < nfull { full_range(suff) } else { dst_samples(len, suff, level, rng) };
                for d in dsts {
                    run_aligned(out, cx, f, &src, d, all_aligns, true);
                }
            }
        } else {
            let (short_v, modulus, other_v) = partial_quick_plan(f);
            if len <= 24 {
                for k in 0..short_v {
                    let src = mk(k, rng);
                    for d in full_range(suff) {
                        run_aligned(out, cx, f, &src, d, false, true);
                    }
                }
            } else {
                let chosen = len % modulus == (seed as usize).wrapping_add(fidx) % modulus;
                for k in 0..other_v.max(1) {
                    let src = mk(k, rng);
                    let dsts = if chosen && k == 0 { full_range(suff) } else { dst_samples(len, suff, 2, rng) };
                    for d in dsts {
                        run_aligned(out, cx, f, &src, d, false, true);
                    }
                }
            }
        }
        return;
    }
    match f.min_dst(len) {
        Some(min) => {
            let nvar = if thorough { N_SHAPES } else { 3 };
            for k in 0..nvar {
                let src = mk(k, rng);
                let mut dsts = vec![min];
                if !thorough || k < 3 {
                    dsts.push(min + 1);
                    dsts.push(min + 17);
                    dsts.push(min + 2 + rng.below(64));
                }
                for d in dsts {
                    run_aligned(out, cx, f, &src, d, all_aligns, true);
                }
                // the one too-short probe
                let probe = if thorough { k < 2 } else { k == 0 };
                if probe && min > 0 {
                    run_aligned(out, cx, f, &src, min - 1, false, true);
                }
            }
        }
        None => {
            // decode_latin1, encode_latin1_lossy, ensure_utf16_validity
            let nvar = if thorough { N_SHAPES + 4 } else { 8 };
            for k in 0..nvar {
                let src = mk(k, rng);
                run_aligned(out, cx, f, &src, 0, all_aligns || f == F::Ensure && len <= 40 && k < 2, true);
            }
        }
    }
}

/// inputs outside the documented domain of the two UTF-8 -> Latin1 functions (must panic: debug assertions are on)
fn out_of_range_latin1_inputs(include_invalid: bool) -> Vec<Vec<u8>> {
    let mut v: Vec<Vec<u8>> = vec![
        "\u{100}".into(),
        "a\u{100}".into(),
        "\u{e4}\u{20ac}".into(),
        "aaaaaaaaaaaaaaaa\u{100}".into(),
        "\u{1F4A9}".into(),
        "abc\u{10000}def".into(),
        "\u{ff}\u{100}".into(),
        "\u{7ff}".into(),
        "\u{800}aaaaaaaaaaaaaaaaaaaa".into(),
        "aaaaaaaaaaaaaaaaaaaaaaaaaaaaaaa\u{e4}aaaaaaaaaaaaaaaaaaaaaaaaaaaaaaaaaaa\u{3042}".into(),
        "\u{e4}\u{e4}\u{e4}\u{e4}\u{e4}\u{e4}\u{e4}\u{e4}\u{e4}\u{e4}\u{e4}\u{e4}\u{e4}\u{e4}\u{e4}\u{e4}\u{e4}\u{e4}\u{e4}\u{e4}\u{e4}\u{e4}\u{e4}\u{e4}\u{e4}\u{e4}\u{e4}\u{e4}\u{e4}\u{e4}\u{e4}\u{e4}\u{e4}\u{e4}\u{e4}\u{e4}\u{e4}\u{e4}\u{e4}\u{e4}\u{104}".into(),
    ];
    if include_invalid {
        v.push(vec![0x80]);
        v.push(vec![0xC2]);
        v.push(vec![0x61, 0x62, 0xC3]);
        v.push(vec![0xC3, 0x28]);
        v.push(vec![0xE0, 0x80, 0x80]);
        v.push(vec![0xED, 0xA0, 0x80]);
        v.push(vec![0xF8, 0x88, 0x80, 0x80, 0x80]);
        v.push(vec![0x61, 0x62, 0x63, 0xFF]);
        v.push(vec![0xC0, 0x80]);
        v.push(vec![0xC1, 0xBF]);
        // a lead 0xC2 / 0xC3 whose trail is NOT a continuation byte, at the very end and followed by valid text
        // (the debug assertion `is_utf8_latin1` tests `(trail & 0xC0) == 0x80`: every class of the two top bits;
        // model-mutation audit ME24)
        for lead in [0xC2u8, 0xC3] {
            for trail in [0x00u8, 0x3F, 0x40, 0x7F, 0xC0, 0xC2, 0xC3, 0xE9, 0xFF] {
                v.push(vec![lead, trail]);
                v.push(vec![0x61, lead, trail, 0x62]);
                v.push(vec![lead, trail, 0xC3, 0xA4]);
            }
        }
        let mut long = vec![0x61u8; 40];
        long.push(0xBF);
        v.push(long);
    }
    v
}

fn extras(out: &mut Out, cx: &mut Ctx, al: &Alphas, rng: &mut Rng, f: F, thorough: bool) {
    match f {
        F::U8L1 => {
            for s in out_of_range_latin1_inputs(true) {
                let n = s.len();
                run_aligned(out, cx, f, &Src::B(s), n, false, true);
            }
        }
        F::EncL1 => {
            for s in out_of_range_latin1_inputs(false) {
                run_aligned(out, cx, f, &Src::B(s), 0, false, true);
            }
        }
        F::U16L1 => {
            // guard bands only: behaviour for non-Latin1 units is unspecified, no op line
            for len in 0..=MAXLEN {
                if thorough || len % 3 == 0 {
                    let shape = shape_of(len, 1, 7);
                    let src = Src::W(al.utf16.build(len, shape, len, rng));
                    run_aligned(out, cx, f, &src, len, false, false);
                    run_aligned(out, cx, f, &src, len + 5, false, false);
                }
            }
        }
        F::U16U8P | F::U16StrP => {
            // the F5 shape against destinations around the stride boundaries
            let step = if f == F::U16U8P { 1 } else { 4 };
            let mut len = 6;
            while len <= 64 {
                let src = Src::W(al.utf16.build(len, 18, 0, rng));
                for d in [14usize, 15, 16, 17, 18, 30, 31, 32, 33, 34, 46, 47, 48] {
                    if d <= 3 * len {
                        run_aligned(out, cx, f, &src, d, false, true);
                    }
                }
                len += step;
            }
            // astral / surrogate items straddling the end of the destination
            let tails: [&[u16]; 17] = [
                &[0xD83D, 0xDCA9],
                &[0xD800],
                &[0xDC00],
                &[0xD800, 0x61],
                &[0xD800, 0xD800, 0xDC00],
                &[0x3042, 0xD83D, 0xDCA9],
                // the ends of the surrogate ranges, paired and unpaired: with exactly three bytes free the `'tail`
                // of convert_utf16_to_utf8_partial decides between "valid pair, will not fit" and U+FFFD
                // (model-mutation audit ME13 / ME14 / ME16 / SS09)
                &[0xDBFF, 0xDFFF],
                &[0xD800, 0xDC00],
                &[0xD800, 0xDFFF],
                &[0xDBFF, 0xDC00],
                &[0xDBFF],
                &[0xDFFF],
                &[0xDBFF, 0xE000],
                &[0xDBFF, 0xDBFF],
                &[0xD7FF, 0xDC00],
                &[0xE4, 0xDBFF, 0xDFFF],
                &[0xE4, 0x3042, 0xD800, 0xDC00],
            ];
            for pre in [0usize, 1, 13, 14, 15, 16, 17, 29, 30, 31, 32] {
                for t in tails.iter() {
                    let mut v = vec![0x61u16; pre];
                    v.extend_from_slice(t);
                    v.push(0x62);
                    let src = Src::W(v);
                    for extra in 0..=9 {
                        run_aligned(out, cx, f, &src, pre + extra, false, true);
                    }
                }
            }
        }
        F::U8U16 | F::U8U16NoRepl | F::StrU16 => {
            // bounded-exhaustive: every byte string of length <= 3 over the
            // class-representative alphabet (every boundary of Table 3-7), and
            // length 4 over a smaller one, alone (the `'tail` path of
            // `convert_utf8_to_utf16_up_to_invalid`: fewer than 4 bytes left)
            // and embedded in ASCII (the `'inner` path)
            const A3: [u8; 27] = [
                0x00, 0x41, 0x7F, 0x80, 0x8F, 0x90, 0x9F, 0xA0, 0xBF, 0xC0, 0xC1, 0xC2, 0xDF, 0xE0, 0xE1, 0xEC, 0xED,
                0xEE, 0xEF, 0xF0, 0xF1, 0xF3, 0xF4, 0xF5, 0xF7, 0xF8, 0xFF,
            ];
            const A4: [u8; 11] = [0x41, 0x80, 0x8F, 0x90, 0xA0, 0xBF, 0xC2, 0xE0, 0xED, 0xF0, 0xF4];
            let mut all: Vec<Vec<u8>> = vec![Vec::new()];
            let mut cur: Vec<Vec<u8>> = vec![Vec::new()];
            for _ in 0..3 {
                let mut next = Vec::new();
                for v in &cur {
                    for &b in A3.iter() {
                        let mut w = v.clone();
                        w.push(b);
                        next.push(w);
                    }
                }
                all.extend(next.iter().cloned());
                cur = next;
            }
            let a4: &[u8] = if thorough { &A3 } else { &A4 };
            for &a in a4 {
                for &b in a4 {
                    for &c in a4 {
                        for &d in a4 {
                            all.push(vec![a, b, c, d]);
                        }
                    }
                }
            }
            let extra = if f == F::U8U16 { 1 } else { 0 };
            for v in all {
                let mut variants: Vec<Vec<u8>> = vec![v.clone()];
                let mut w = b"aaaaa".to_vec();
                w.extend_from_slice(&v);
                w.push(b'a');
                variants.push(w);
                if thorough || v.len() <= 2 {
                    let mut w = v.clone();
                    w.extend_from_slice(b"aaaa");
                    variants.push(w);
                    let mut w = vec![0xC3, 0xA4];
                    w.extend_from_slice(&v);
                    variants.push(w);
                }
                for s in variants {
                    if f == F::StrU16 && std::str::from_utf8(&s).is_err() {
                        continue;
                    }
                    let n = s.len() + extra;
                    run_aligned(out, cx, f, &Src::B(s), n, false, true);
                }
            }
        }
        F::U16U8 | F::Ensure => {
            // bounded-exhaustive short UTF-16 strings over the class boundaries
            const U: [u16; 13] = [
                0x20, 0x41, 0x7F, 0x80, 0x7FF, 0x800, 0xD7FF, 0xD800, 0xDBFF, 0xDC00, 0xDFFF, 0xE000, 0xFFFF,
            ];
            let maxl = if f == F::Ensure || thorough { 4 } else { 3 };
            let mut cur: Vec<Vec<u16>> = vec![Vec::new()];
            for _ in 0..maxl {
                let mut next = Vec::new();
                for v in &cur {
                    for &u in U.iter() {
                        let mut w = v.clone();
                        w.push(u);
                        next.push(w);
                    }
                }
                for v in &next {
                    let n = if f == F::Ensure { 0 } else { 3 * v.len() };
                    run_aligned(out, cx, f, &Src::W(v.clone()), n, false, true);
                }
                cur = next;
            }
        }
        _ => {}
    }
    if f == F::U16U8P {
        // bounded-exhaustive short UTF-16 strings x every destination length
        const U: [u16; 13] =
            [0x20, 0x41, 0x7F, 0x80, 0x7FF, 0x800, 0xD7FF, 0xD800, 0xDBFF, 0xDC00, 0xDFFF, 0xE000, 0xFFFF];
        let maxl = if thorough { 4 } else { 3 };
        let mut cur: Vec<Vec<u16>> = vec![Vec::new()];
        for _ in 0..maxl {
            let mut next = Vec::new();
            for v in &cur {
                for &u in U.iter() {
                    let mut w = v.clone();
                    w.push(u);
                    next.push(w);
                }
            }
            for v in &next {
                for d in 0..=(3 * v.len() + 1) {
                    run_aligned(out, cx, f, &Src::W(v.clone()), d, false, true);
                }
            }
            cur = next;
        }
    }
}

pub fn generate(prop: &str, out: &mut Out, thorough: bool, seed: u64) -> bool {
    if prop != PROP && prop != "C18" && prop != "C05" && prop != "C06" {
        return false;
    }
    let mut cx = Ctx::new();
    cx.c18 = prop == "C18";
    cx.only = match prop {
        "C05" => Some("C05"),
        "C06" => Some("C06"),
        _ => None,
    };
    let al = Alphas::new();
    for (fidx, &f) in ALL_FNS.iter().enumerate() {
        if prop == "C05" && !f.yields_str() {
            continue;
        }
        let mut rng = Rng::new(seed ^ (0xC15_0000 + fidx as u64));
        for len in 0..=MAXLEN {
            gen_fn_len(out, &mut cx, &al, &mut rng, f, fidx, len, thorough, seed);
        }
        extras(out, &mut cx, &al, &mut rng, f, thorough);
    }
    if std::env::var("C15_STATS").is_ok() {
        for f in ALL_FNS.iter() {
            let n = f.name();
            eprintln!(
                "C15-STAT {} lines={} calls={} beyond_written_calls={}{}",
                n,
                cx.lines.get(n).copied().unwrap_or(0),
                cx.calls.get(n).copied().unwrap_or(0),
                cx.beyond.get(n).copied().unwrap_or(0),
                match cx.beyond_example.get(n) {
                    Some(e) => format!(" first_example[{}]", e),
                    None => String::new(),
                }
            );
        }
    }
    true
}

pub fn replay(toks: &[&str], out: &mut Out) -> bool {
    if toks.is_empty() || toks[0] != "mem" || toks.len() != 4 {
        return false;
    }
    let f = match F::from_name(toks[1]) {
        Some(f) => f,
        None => return false,
    };
    let dstlen: usize = match toks[2].parse() {
        Ok(n) => n,
        Err(_) => return false,
    };
    let src = if f.src_u16() { Src::W(unhex16(toks[3])) } else { Src::B(unhex(toks[3])) };
    if f.needs_str_src() {
        if let Src::B(b) = &src {
            if std::str::from_utf8(b).is_err() {
                // &str parameter: not callable with invalid UTF-8
                return false;
            }
        }
    }
    let mut cx = Ctx::new();
    run_case(out, &mut cx, f, &src, dstlen, 0, true);
    // C18: the same call with the other destination pre-fills
    let mut cx2 = Ctx::new();
    cx2.c18 = true;
    let mut sink = Out::new();
    for v in 0..3 {
        cx2.fill_variant = v;
        run_case(&mut sink, &mut cx2, f, &src, dstlen, 0, true);
    }
    for l in sink.oracle_fail {
        out.oracle_fail.push(l);
    }
    true
}
