//! Shared helpers: deterministic PRNG, hex encoding, panic capture.

pub struct Rng(pub u64);

impl Rng {
    pub fn new(seed: u64) -> Rng {
        // splitmix to avoid the all-zero state
        let mut z = seed.wrapping_add(0x9E3779B97F4A7C15);
        z = (z ^ (z >> 30)).wrapping_mul(0xBF58476D1CE4E5B9);
        z = (z ^ (z >> 27)).wrapping_mul(0x94D049BB133111EB);
        Rng((z ^ (z >> 31)) | 1)
    }
    pub fn next(&mut self) -> u64 {
        let mut x = self.0;
        x ^= x << 13;
        x ^= x >> 7;
        x ^= x << 17;
        self.0 = x;
        x.wrapping_mul(0x2545F4914F6CDD1D)
    }
    pub fn below(&mut self, n: usize) -> usize {
        if n == 0 {
            0
        } else {
            (self.next() % (n as u64)) as usize
        }
    }
    pub fn chance(&mut self, num: usize, den: usize) -> bool {
        self.below(den) < num
    }
    pub fn pick<'a, T>(&mut self, xs: &'a [T]) -> &'a T {
        &xs[self.below(xs.len())]
    }
}

pub fn hex(bytes: &[u8]) -> String {
    if bytes.is_empty() {
        return ".".to_string();
    }
    let mut s = String::with_capacity(bytes.len() * 2);
    for b in bytes {
        s.push_str(&format!("{:02x}", b));
    }
    s
}

pub fn hex16(units: &[u16]) -> String {
    if units.is_empty() {
        return ".".to_string();
    }
    let mut s = String::with_capacity(units.len() * 4);
    for u in units {
        s.push_str(&format!("{:04x}", u));
    }
    s
}

pub fn unhex(s: &str) -> Vec<u8> {
    if s == "." {
        return Vec::new();
    }
    (0..s.len() / 2)
        .map(|i| u8::from_str_radix(&s[2 * i..2 * i + 2], 16).unwrap())
        .collect()
}

pub fn unhex16(s: &str) -> Vec<u16> {
    if s == "." {
        return Vec::new();
    }
    (0..s.len() / 4)
        .map(|i| u16::from_str_radix(&s[4 * i..4 * i + 4], 16).unwrap())
        .collect()
}

pub fn nats(xs: &[usize]) -> String {
    if xs.is_empty() {
        return ".".to_string();
    }
    xs.iter().map(|x| x.to_string()).collect::<Vec<_>>().join(",")
}

pub fn parse_nats(s: &str) -> Vec<usize> {
    if s == "." {
        return Vec::new();
    }
    s.split(',').map(|x| x.parse().unwrap()).collect()
}

/// Run `f`, turning a panic into `Err(message)`.
pub fn catch<T, F: FnOnce() -> T + std::panic::UnwindSafe>(f: F) -> Result<T, String> {
    match std::panic::catch_unwind(f) {
        Ok(v) => Ok(v),
        Err(e) => {
            let msg = if let Some(s) = e.downcast_ref::<&str>() {
                s.to_string()
            } else if let Some(s) = e.downcast_ref::<String>() {
                s.clone()
            } else {
                "panic".to_string()
            };
            Err(msg.replace(' ', "_").replace('\n', "_"))
        }
    }
}

pub fn ident(e: &'static encoding_rs::Encoding) -> String {
    e.name().to_ascii_uppercase().replace('-', "_")
}

pub fn verif_dir() -> String {
    std::env::var("VERIF_DIR").unwrap_or_else(|_| "/verif".to_string())
}

/// Output sink shared by all generators: operation lines for the model driver
/// (`op args => impl result`) and oracle failures (`ORACLE-FAIL <prop> …`).
pub struct Out {
    pub ops: Vec<String>,
    pub oracle_fail: Vec<String>,
    pub oracle_evals: u64,
    /// when set (`ops` command), operation lines are written here as they are produced
    /// instead of being collected in `ops` (the thorough C17 corpus has ~10^8 lines)
    pub sink: Option<std::io::BufWriter<std::fs::File>>,
    /// number of operation lines produced (collected or streamed)
    pub n_ops: usize,
}

impl Out {
    pub fn new() -> Out {
        Out { ops: Vec::new(), oracle_fail: Vec::new(), oracle_evals: 0, sink: None, n_ops: 0 }
    }
    pub fn op(&mut self, lhs: String, rhs: String) {
        self.n_ops += 1;
        PROGRESS.fetch_add(1, std::sync::atomic::Ordering::Relaxed);
        match self.sink.as_mut() {
            Some(f) => {
                use std::io::Write;
                writeln!(f, "{} => {}", lhs, rhs).unwrap();
            }
            None => self.ops.push(format!("{} => {}", lhs, rhs)),
        }
    }
    /// `lhs` is the operation line (left-hand side) that reproduces the failure.
    pub fn fail(&mut self, prop: &str, lhs: &str, what: String) {
        if self.oracle_fail.len() < 200 {
            self.oracle_fail.push(format!("ORACLE-FAIL {} {} :: {}", prop, lhs, what));
        }
    }
}

/// byte/unit counts near the `usize` overflow thresholds of the max_* formulas (C07 overflow clause);
/// `i` selects one deterministically
pub fn big_n(i: usize) -> usize {
    let divs = [1usize, 2, 3, 4];
    let d = divs[i % 4];
    let delta = (i / 4) % 9; // -5 ..= +3
    let base = usize::MAX / d;
    if delta >= 5 { base.saturating_add(delta - 5) } else { base - (5 - delta) }
}

/// Boundary values taken from the crate's source by `tools/scan_constants.py` (every literal of
/// src/*.rs in 0x80..=0x10FFFF with its two neighbours); the check passes the file in `VERIF_CONSTANTS`.
/// Empty when the variable is not set (replays).
pub fn source_constants() -> &'static Vec<u32> {
    static C: std::sync::OnceLock<Vec<u32>> = std::sync::OnceLock::new();
    C.get_or_init(|| {
        let mut v = Vec::new();
        if let Ok(p) = std::env::var("VERIF_CONSTANTS") {
            if let Ok(text) = std::fs::read_to_string(p) {
                for l in text.lines() {
                    if let Some(h) = l.split(' ').next() {
                        if let Ok(x) = u32::from_str_radix(h, 16) {
                            if char::from_u32(x).is_some() {
                                v.push(x);
                            }
                        }
                    }
                }
            }
        }
        // plane aliases: every BMP constant again in planes 1, 2 and 16 (same low 16 bits).  A comparison done on a
        // value truncated to 16 bits treats U+1F780 like U+F780 (seeded defect C12_6, caught by random streams with
        // some seeds only before this was added).
        let bmp: Vec<u32> = v.iter().copied().filter(|&x| (0x80..=0xFFFF).contains(&x)).collect();
        for x in bmp {
            for plane in [0x1_0000u32, 0x2_0000, 0x10_0000] {
                v.push(x + plane);
            }
        }
        v
    })
}

/// liveness counter for the watchdog: bumped by every finished operation and every `trace_op`
pub static PROGRESS: std::sync::atomic::AtomicU64 = std::sync::atomic::AtomicU64::new(0);
static CURRENT: std::sync::Mutex<String> = std::sync::Mutex::new(String::new());

/// Record the operation that is about to run, so that the watchdog can name the input when a call of the
/// real code never returns.
pub fn trace_op(lhs: &str) {
    PROGRESS.fetch_add(1, std::sync::atomic::Ordering::Relaxed);
    if let Ok(mut c) = CURRENT.lock() {
        c.clear();
        c.push_str(lhs);
    }
    // crash diagnosis (second run after the harness process died): keep the running operation on disk
    static F: std::sync::OnceLock<Option<std::sync::Mutex<std::fs::File>>> = std::sync::OnceLock::new();
    let f = F.get_or_init(|| std::env::var("VERIF_TRACE_FILE").ok().and_then(|p| std::fs::File::create(p).ok()).map(std::sync::Mutex::new));
    if let Some(m) = f {
        use std::io::{Seek, SeekFrom, Write};
        if let Ok(mut file) = m.lock() {
            let _ = file.set_len(0);
            let _ = file.seek(SeekFrom::Start(0));
            let _ = file.write_all(lhs.as_bytes());
        }
    }
}

/// A call of the real code that never returns cannot be interrupted in-process.  The watchdog thread ends
/// the harness when no operation has finished for `VERIF_STALL` seconds (default 120) and reports the
/// operation that was running as a failing input of `prop` (C08: every call returns and the caller loop ends).
pub fn start_watchdog(prop: String) {
    let stall: u64 = std::env::var("VERIF_STALL").ok().and_then(|v| v.parse().ok()).unwrap_or(120);
    std::thread::spawn(move || {
        let mut last = PROGRESS.load(std::sync::atomic::Ordering::Relaxed);
        let mut idle = 0u64;
        loop {
            std::thread::sleep(std::time::Duration::from_secs(1));
            let now = PROGRESS.load(std::sync::atomic::Ordering::Relaxed);
            if now != last {
                last = now;
                idle = 0;
                continue;
            }
            idle += 1;
            if idle >= stall {
                let cur = CURRENT.lock().map(|c| c.clone()).unwrap_or_default();
                println!("ORACLE-FAIL {} {} :: no operation finished for {} s: this call (or the caller loop around it) does not return", prop, cur, stall);
                println!("HARNESS-HANG {}", cur);
                use std::io::Write;
                let _ = std::io::stdout().flush();
                std::process::exit(3);
            }
        }
    });
}

/// Buffers ending in every sequence of 1..=4 characters over the UTF-8 length classes {1, 2, 3, 4 bytes}
/// (`a`, U+00E9, U+20AC, U+1F600), complete and with the last character cut short by one byte, after ASCII
/// prefixes of lengths around the stride sizes.
pub fn utf8_tail_shapes() -> Vec<Vec<u8>> {
    const CH: [&str; 4] = ["a", "\u{E9}", "\u{20AC}", "\u{1F600}"];
    const PRE: [usize; 10] = [0, 1, 3, 14, 15, 16, 17, 47, 59, 61];
    let mut out = Vec::new();
    for n in 1..=4usize {
        for code in 0..4usize.pow(n as u32) {
            let mut tail = String::new();
            let mut c = code;
            for _ in 0..n {
                tail.push_str(CH[c % 4]);
                c /= 4;
            }
            for (pi, &pre) in PRE.iter().enumerate() {
                // the complete tail after every prefix for short sequences, after a rotating subset otherwise
                if n >= 3 && (pi + code) % 3 != 0 {
                    continue;
                }
                let mut v = vec![b'x'; pre];
                v.extend_from_slice(tail.as_bytes());
                out.push(v.clone());
                if (code + pi) % 4 == 0 && *v.last().unwrap() >= 0x80 {
                    v.pop();
                    out.push(v);
                }
            }
        }
    }
    out
}
