//! Verification harness for encoding_rs: calls the real crate in-process,
//! prints operation lines (`op args => implementation result`) for the Lean
//! model driver and `ORACLE-FAIL <prop> <op lhs> :: <detail>` lines for
//! property-level oracle failures found on the implementation itself.
//!
//! usage: verif_harness ops <property> <quick|thorough> <seed> <ops-file>
//!        verif_harness replay <file-with-op-lines>   (re-executes op lines)
//!
//! Each module exposes
//!   pub fn generate(prop: &str, out: &mut Out, thorough: bool, seed: u64) -> bool   (true if it serves `prop`)
//!   pub fn replay(toks: &[&str], out: &mut Out) -> bool                             (true if it knows the op)
mod cfgcorpus;
mod cls;
mod dec;
mod decsys;
mod enc;
mod oneshot;
mod meta;
mod encchar;
mod label;
mod memconv;
mod specdec;
mod specenc;
mod strsink;
mod util;
mod valid;

use std::io::Write;
use util::*;

type GenFn = fn(&str, &mut Out, bool, u64) -> bool;
type ReplayFn = fn(&[&str], &mut Out) -> bool;

const MODULES: &[(GenFn, ReplayFn)] = &[
    (label::generate, label::replay),
    (dec::generate, dec::replay),
    (valid::generate, valid::replay),
    (memconv::generate, memconv::replay),
    (cls::generate, cls::replay),
    (encchar::generate, encchar::replay),
    (enc::generate, enc::replay),
    (oneshot::generate, oneshot::replay),
    (meta::generate, meta::replay),
    (cfgcorpus::generate, cfgcorpus::replay),
    (specdec::generate, specdec::replay),
    (specenc::generate, specenc::replay),
    (strsink::generate, strsink::replay),
];

fn main() {
    // keep panic messages of caught panics off stderr
    std::panic::set_hook(Box::new(|_| {}));
    let args: Vec<String> = std::env::args().collect();
    if args.len() < 2 {
        eprintln!("usage: verif_harness ops <prop> <tier> <seed> <file> | replay <file>");
        std::process::exit(2);
    }
    let mut out = Out::new();
    match args[1].as_str() {
        "ops" => {
            let prop = &args[2];
            start_watchdog(prop.clone());
            let thorough = args[3] == "thorough";
            let seed: u64 = args[4].parse().unwrap_or(0);
            let mut served = false;
            // operation lines are streamed to the file (see `Out::sink`)
            out.sink = Some(std::io::BufWriter::new(std::fs::File::create(&args[5]).unwrap()));
            for (g, _) in MODULES {
                served |= g(prop, &mut out, thorough, seed);
            }
            if !served {
                eprintln!("unknown property {}", prop);
                std::process::exit(2);
            }
            let mut f = out.sink.take().unwrap();
            for l in &out.ops {
                writeln!(f, "{}", l).unwrap();
            }
            f.flush().unwrap();
        }
        "replay" => {
            start_watchdog("REPLAY".to_string());
            let text = std::fs::read_to_string(&args[2]).unwrap();
            for line in text.lines() {
                if line.is_empty() || line.starts_with('#') {
                    continue;
                }
                let lhs = line.split(" => ").next().unwrap();
                let toks: Vec<&str> = lhs.split(' ').collect();
                let mut known = false;
                for (_, r) in MODULES {
                    if r(&toks, &mut out) {
                        known = true;
                        break;
                    }
                }
                if !known {
                    println!("cannot replay: {}", line);
                }
            }
            for l in &out.ops {
                println!("{}", l);
            }
        }
        _ => {
            eprintln!("unknown command");
            std::process::exit(2);
        }
    }
    for l in &out.oracle_fail {
        println!("{}", l);
    }
    println!(
        "HARNESS-STAT ops={} oracle_evals={} oracle_fails={}",
        out.n_ops,
        out.oracle_evals,
        out.oracle_fail.len()
    );
}
