//! Verification harness for encoding_rs: calls the real crate in-process,
//! prints operation lines (`op args => implementation result`) for the Lean
//! model driver and `ORACLE-FAIL <prop> …` lines for property-level oracle
//! failures found on the implementation itself.
//!
//! usage: verif_harness ops <property> <quick|thorough> <seed> <ops-file>
//!        verif_harness replay <ops-file-with-lines>   (re-executes op lines)
mod label;
mod util;

use std::io::Write;
use util::*;

fn generate(prop: &str, thorough: bool, seed: u64, out: &mut Out) {
    match prop {
        "C13" => label::generate(out, thorough, seed),
        _ => {
            eprintln!("unknown property {}", prop);
            std::process::exit(2);
        }
    }
}

/// Re-execute one op line (its left-hand side) on the implementation.
fn replay_line(line: &str, out: &mut Out) {
    let lhs = line.split(" => ").next().unwrap();
    let toks: Vec<&str> = lhs.split(' ').collect();
    match toks[0] {
        "label" => {
            let labels = label::load_spec_labels();
            let map = labels.iter().cloned().collect();
            label::one(out, &map, &unhex(toks[1]));
        }
        _ => {
            eprintln!("cannot replay: {}", line);
        }
    }
}

fn main() {
    // keep panic messages of caught panics off stderr
    std::panic::set_hook(Box::new(|_| {}));
    let args: Vec<String> = std::env::args().collect();
    if args.len() < 2 {
        eprintln!("usage: verif_harness ops <prop> <tier> <seed> <file> | replay <file>");
        std::process::exit(2);
    }
    let mut out = Out::new();
    match args[1].as_str() {
        "ops" => {
            let prop = &args[2];
            let thorough = args[3] == "thorough";
            let seed: u64 = args[4].parse().unwrap_or(0);
            generate(prop, thorough, seed, &mut out);
            let mut f = std::io::BufWriter::new(std::fs::File::create(&args[5]).unwrap());
            for l in &out.ops {
                writeln!(f, "{}", l).unwrap();
            }
        }
        "replay" => {
            let text = std::fs::read_to_string(&args[2]).unwrap();
            for line in text.lines() {
                if line.is_empty() || line.starts_with('#') {
                    continue;
                }
                replay_line(line, &mut out);
            }
            for l in &out.ops {
                println!("{}", l);
            }
        }
        _ => {
            eprintln!("unknown command");
            std::process::exit(2);
        }
    }
    for l in &out.oracle_fail {
        println!("{}", l);
    }
    println!("HARNESS-STAT ops={} oracle_evals={} oracle_fails={}", out.ops.len(), out.oracle_evals, out.oracle_fail.len());
}
