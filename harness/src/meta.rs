//! C20: metadata predicates versus exhaustive decode / encode sweeps of the same build.
//!
//!   meta <ENC> => asc=<0|1> sb=<0|1> all=<0|1> out=<ENC> newenc=<ENC> name=<name>
//!
//! plus, for the model tie of the behaviour the predicates talk about, `dec` histories (one complete
//! `last` call, with replacement, UTF-16 sink) for every single byte, pairs of class-representative
//! bytes (thorough: every pair for the multi-byte encodings) and the ISO-2022-JP escapes, and
//! `encchar` lines for U+0000..U+007F and the class-representative scalars.
//!
//! Oracles (implementation only, the finite space of the property enumerated completely):
//!  * is_ascii_compatible() == (every byte 00-7F decodes to the same scalar without error, and every
//!    U+0000..U+007F encodes to that single byte)
//!  * is_single_byte() == (every byte string of length 1 and 2 - for ISO-2022-JP also the three-byte
//!    escapes - decodes to as many UTF-16 code units as it has bytes, and every mappable scalar value
//!    encodes to exactly one byte)
//!  * can_encode_everything() == (no scalar value of the 1,112,064 is unmappable)
//!  * output_encoding() idempotent; new_encoder().encoding() and encode().1 are output_encoding()
//!  * ==, Hash: equal exactly on the diagonal of the 40 x 40 pairs; for_label(name()) is the instance
use crate::dec::{self, Bom, Plan, ALL};
use crate::encchar;
use crate::util::*;
use encoding_rs::{EncoderResult, Encoding, ISO_2022_JP};
use std::collections::hash_map::DefaultHasher;
use std::hash::{Hash, Hasher};

fn b01(b: bool) -> &'static str {
    if b {
        "1"
    } else {
        "0"
    }
}

fn utf16_len_of(e: &'static Encoding, bytes: &[u8]) -> Option<usize> {
    let mut d = e.new_decoder_without_bom_handling();
    let mut dst = [0u16; 16];
    let (r, read, written, _) = d.decode_to_utf16(bytes, &mut dst, true);
    if r != encoding_rs::CoderResult::InputEmpty || read != bytes.len() {
        return None;
    }
    Some(written)
}

fn ascii_decodes(e: &'static Encoding) -> bool {
    (0u8..0x80).all(|b| {
        let mut d = e.new_decoder_without_bom_handling();
        let mut dst = [0u16; 8];
        let (r, read, written) = d.decode_to_utf16_without_replacement(&[b], &mut dst, true);
        r == encoding_rs::DecoderResult::InputEmpty && read == 1 && written == 1 && dst[0] == b as u16
    })
}

fn ascii_encodes(e: &'static Encoding) -> bool {
    (0u8..0x80).all(|b| {
        let mut enc = e.new_encoder();
        let mut dst = [0u8; 16];
        let s = [b];
        let st = std::str::from_utf8(&s).unwrap();
        let (r, read, written) = enc.encode_from_utf8_without_replacement(st, &mut dst, true);
        r == EncoderResult::InputEmpty && read == 1 && written == 1 && dst[0] == b
    })
}

/// (number of scalar values that are unmappable, every mappable one encoded to exactly one byte)
fn encode_sweep(e: &'static Encoding) -> (usize, bool) {
    let mut unmappable = 0usize;
    let mut one_byte = true;
    let stateful = e == ISO_2022_JP;
    let mut text = String::with_capacity(4 * 0x11_0000);
    for c in 0..=0x10FFFFu32 {
        if let Some(ch) = char::from_u32(c) {
            text.push(ch);
        }
    }
    let mut enc = e.new_encoder();
    let mut src: &str = &text;
    let mut dst = vec![0u8; 1 << 16];
    let mut mapped_chars = 0usize;
    let mut bytes = 0usize;
    loop {
        let (r, read, written) = enc.encode_from_utf8_without_replacement(src, &mut dst, false);
        let chars = src[..read].chars().count();
        src = &src[read..];
        match r {
            EncoderResult::InputEmpty => {
                mapped_chars += chars;
                bytes += written;
                break;
            }
            EncoderResult::OutputFull => {
                mapped_chars += chars;
                bytes += written;
            }
            EncoderResult::Unmappable(_) => {
                mapped_chars += chars - 1;
                bytes += written;
                unmappable += 1;
            }
        }
    }
    if stateful || bytes != mapped_chars {
        one_byte = false;
    }
    (unmappable, one_byte)
}

fn hash_of(e: &'static Encoding) -> u64 {
    let mut h = DefaultHasher::new();
    e.hash(&mut h);
    h.finish()
}

fn oracles(out: &mut Out) {
    for (i, &e) in ALL.iter().enumerate() {
        let lhs = format!("meta {}", ident(e));
        // --- is_ascii_compatible
        out.oracle_evals += 1;
        let (ad, ae) = (ascii_decodes(e), ascii_encodes(e));
        if e.is_ascii_compatible() != (ad && ae) {
            out.fail("C20", &lhs, format!("is_ascii_compatible()={} but bytes 00-7F decode to themselves: {}, U+0000-U+007F encode to themselves: {}", e.is_ascii_compatible(), ad, ae));
        }
        // --- is_single_byte
        out.oracle_evals += 1;
        let mut dec_one = true;
        let mut witness: Vec<u8> = Vec::new();
        'sweep: for a in 0..=255u8 {
            if utf16_len_of(e, &[a]) != Some(1) {
                dec_one = false;
                witness = vec![a];
                break 'sweep;
            }
            for b in 0..=255u8 {
                if utf16_len_of(e, &[a, b]) != Some(2) {
                    dec_one = false;
                    witness = vec![a, b];
                    break 'sweep;
                }
            }
        }
        if dec_one && e == ISO_2022_JP {
            for esc in [[0x1Bu8, 0x28, 0x42], [0x1B, 0x28, 0x4A], [0x1B, 0x28, 0x49], [0x1B, 0x24, 0x40], [0x1B, 0x24, 0x42]] {
                if utf16_len_of(e, &esc) != Some(3) {
                    dec_one = false;
                    witness = esc.to_vec();
                }
            }
        }
        let (unmappable, enc_one) = encode_sweep(e);
        if e.is_single_byte() != (dec_one && enc_one) {
            out.fail("C20", &lhs, format!("is_single_byte()={} but every byte string of length <= 2 decodes to as many UTF-16 units: {} (witness {}), every mappable scalar encodes to one byte: {}", e.is_single_byte(), dec_one, hex(&witness), enc_one));
        }
        // --- can_encode_everything
        out.oracle_evals += 1;
        if e.can_encode_everything() != (unmappable == 0) {
            out.fail("C20", &lhs, format!("can_encode_everything()={} but {} of the 1112064 scalar values are unmappable", e.can_encode_everything(), unmappable));
        }
        // --- output_encoding
        out.oracle_evals += 1;
        let o = e.output_encoding();
        if o.output_encoding() != o {
            out.fail("C20", &lhs, "output_encoding() is not idempotent".to_string());
        }
        if e.new_encoder().encoding() != o {
            out.fail("C20", &lhs, format!("new_encoder().encoding()={} but output_encoding()={}", e.new_encoder().encoding().name(), o.name()));
        }
        let sample = "Az\u{e9}\u{3042}\u{1F4A9}";
        let (bytes, used, _) = e.encode(sample);
        let (obytes, _, _) = o.encode(sample);
        if used != o || bytes != obytes {
            out.fail("C20", &lhs, format!("encode() used {} / produced different bytes than output_encoding()={}", used.name(), o.name()));
        }
        // --- identity
        out.oracle_evals += 1;
        for (j, &f) in ALL.iter().enumerate() {
            if (e == f) != (i == j) {
                out.fail("C20", &lhs, format!("== with {}: {} (instances {} and {})", f.name(), e == f, i, j));
            }
            if (hash_of(e) == hash_of(f)) != (i == j) {
                out.fail("C20", &lhs, format!("Hash agrees with {}: {} (instances {} and {})", f.name(), hash_of(e) == hash_of(f), i, j));
            }
            if i != j && e.name() == f.name() {
                out.fail("C20", &lhs, format!("same name() as instance {}", j));
            }
        }
        if Encoding::for_label(e.name().as_bytes()) != Some(e) {
            out.fail("C20", &lhs, "for_label(name()) is not this instance".to_string());
        }
    }
}

fn emit_dec(out: &mut Out, e: &'static Encoding, bytes: &[u8]) {
    let p = Plan { enc: e, bom: Bom::Off, sink16: true, repl: true, stream: bytes.to_vec(), cuts: vec![bytes.len()], caps: vec![16], skip: false };
    dec::emit(out, &p, &[]);
}

pub fn generate(prop: &str, out: &mut Out, thorough: bool, seed: u64) -> bool {
    if prop != "C20" {
        return false;
    }
    for &e in ALL.iter() {
        let o = e.output_encoding();
        out.op(
            format!("meta {}", ident(e)),
            format!(
                "asc={} sb={} all={} out={} newenc={} name={}",
                b01(e.is_ascii_compatible()),
                b01(e.is_single_byte()),
                b01(e.can_encode_everything()),
                ident(o),
                ident(e.new_encoder().encoding()),
                e.name()
            ),
        );
    }
    oracles(out);
    // behaviour the predicates talk about, for the model tie
    for &e in ALL.iter() {
        for a in 0..=255u8 {
            emit_dec(out, e, &[a]);
        }
        if thorough && !e.is_single_byte() {
            for a in 0..=255u8 {
                for b in 0..=255u8 {
                    emit_dec(out, e, &[a, b]);
                }
            }
        } else {
            for &a in dec::ALPHABET {
                for &b in dec::ALPHABET {
                    emit_dec(out, e, &[a, b]);
                }
            }
        }
        if e == ISO_2022_JP {
            for esc in [[0x1Bu8, 0x28, 0x42], [0x1B, 0x28, 0x4A], [0x1B, 0x28, 0x49], [0x1B, 0x24, 0x40], [0x1B, 0x24, 0x42]] {
                emit_dec(out, e, &esc);
            }
        }
    }
    encchar::generate("ENCCHAR", out, false, seed);
    true
}

pub fn replay(toks: &[&str], out: &mut Out) -> bool {
    if toks[0] != "meta" {
        return false;
    }
    // the oracles are a complete enumeration: a replay runs them all and re-emits the line
    if let Some(e) = dec::enc_by_ident(toks.get(1).copied().unwrap_or("")) {
        let o = e.output_encoding();
        out.op(
            format!("meta {}", ident(e)),
            format!(
                "asc={} sb={} all={} out={} newenc={} name={}",
                b01(e.is_ascii_compatible()),
                b01(e.is_single_byte()),
                b01(e.can_encode_everything()),
                ident(o),
                ident(e.new_encoder().encoding()),
                e.name()
            ),
        );
    }
    oracles(out);
    true
}
